"""Driver: ./check Cxx [quick|thorough] [--replay file]

Regenerates every query from /repo's current working tree (the workers import modelx from /repo and execute it
symbolically), runs the partitions on all cores, replays counterexamples natively before reporting, and writes
/verif/evidence/Cxx.json.  Exit 0 = held on everything explored (KNOWN-FINDING lines allowed), 1 = VIOLATION,
3 = harness error (never a verdict about the property).
"""
import os
import sys
import json
import time
import random
import hashlib
import shutil
import subprocess
import tempfile
import re

HERE = os.path.dirname(os.path.abspath(__file__))
REPO = os.environ.get("VERIF_REPO", "/repo")      # MANIFEST commands use /repo; tools/run_seeded.py points this at a scratch worktree
sys.path.insert(0, REPO)
VERIF = os.path.abspath(os.path.join(HERE, ".."))
sys.path.insert(0, HERE)
sys.path.insert(0, os.path.join(VERIF, "harness"))
PY = sys.executable
NCPU = min(16, os.cpu_count() or 1)


def native_call(prop, qname, args, suppress=True):
    """Run one harness natively in a fresh interpreter without CrossHair; returns dict."""
    code = json.dumps({"prop": prop, "query": qname, "args": args, "suppress": suppress})
    p = subprocess.run([PY, "-u", os.path.join(HERE, "run.py"), "--native-call", code], capture_output=True, text=True,
                       timeout=900, env=dict(os.environ, VERIF_NATIVE="1", PYTHONDONTWRITEBYTECODE="1"))
    for line in p.stdout.splitlines()[::-1]:
        if line.startswith("NATIVE-RESULT "):
            return json.loads(line[len("NATIVE-RESULT "):])
    return {"error": "native call produced no result", "stdout": p.stdout[-2000:], "stderr": p.stderr[-2000:]}


def do_native_call(code):
    spec = json.loads(code)
    import shim
    shim.install(native=True)
    import kit
    import importlib
    mod = importlib.import_module(spec["prop"].lower())
    q = [x for x in mod.QUERIES if x.name == spec["query"]][0]
    kit.ctx.prop, kit.ctx.query = spec["prop"], spec["query"]
    kit.ctx.known = load_known(spec["prop"], spec["query"]) if spec.get("suppress", True) else []
    scratch = tempfile.mkdtemp(prefix="verif_native_")
    os.environ["VERIF_SCRATCH"] = scratch
    try:
        r = q.fn(**spec["args"])
        out = {"return": bool(r) if isinstance(r, (bool, int)) else repr(r), "labels": kit.ctx.labels,
               "failure": list(kit.ctx.failure) if kit.ctx.failure else None, "suppressed": kit.ctx.suppressed}
    except BaseException as e:  # noqa
        import traceback
        out = {"error": repr(e), "tb": traceback.format_exc()[-3000:]}
    finally:
        shutil.rmtree(scratch, ignore_errors=True)
    print("NATIVE-RESULT " + json.dumps(out, default=str))


def load_known(prop, qname=None):
    kf = json.load(open(os.path.join(VERIF, "known_findings.json")))["findings"]
    return [(k["property"], re.compile(k["pattern"]), k["what"]) for k in kf
            if k.get("status") == "known" and k["property"] == prop and (qname is None or k.get("query", qname) == qname)]


def main():
    argv = sys.argv[1:]
    if argv and argv[0] == "--native-call":
        do_native_call(argv[1])
        return 0
    prop = argv[0]
    tier = os.environ.get("VERIF_TIER", "quick")
    replay = None
    only = None
    i = 1
    while i < len(argv):
        if argv[i] in ("quick", "thorough"):
            tier = argv[i]
        elif argv[i] == "--replay":
            replay = argv[i + 1]
            i += 1
        elif argv[i] == "--natives-only":
            os.environ["VERIF_NATIVES_ONLY"] = "1"
        elif argv[i] == "--query":
            only = argv[i + 1]
            i += 1
        i += 1
    seed = int(os.environ.get("VERIF_SEED", "0") or 0)
    os.environ["VERIF_TIER"] = tier
    if replay:
        rp = json.load(open(replay))
        r = native_call(rp["property"], rp["query"], rp["args"], suppress=False)
        print(json.dumps(r, indent=1))
        if r.get("return") is False:
            print("VIOLATION property=%s replay=%s" % (rp["property"], replay))
            return 1
        return 0

    t0 = time.time()
    import shim
    shim.install(native=True)
    import kit
    import importlib
    mod = importlib.import_module(prop.lower())
    queries = [q for q in mod.QUERIES if only is None or q.name == only]
    budget = getattr(mod, "BUDGET", {"quick": 420, "thorough": 2400})[tier]
    budget = int(os.environ.get("VERIF_BUDGET", budget))      # development aid (smoke runs of the thorough tier); never set by the MANIFEST commands
    scratch_root = tempfile.mkdtemp(prefix="verif_%s_" % prop)
    os.makedirs(os.path.join(VERIF, "evidence", "replays"), exist_ok=True)
    violations, errors, notes = [], [], []
    known_lines = []

    # ---- known findings of this property: replay each natively; print KNOWN-FINDING for those that still reproduce
    kf_all = json.load(open(os.path.join(VERIF, "known_findings.json")))["findings"]
    for k in kf_all:
        if k["property"] != prop or k.get("status") != "known":
            continue
        r = native_call(prop, k["query"], k["replay_args"], suppress=False)
        if r.get("return") is False and r.get("failure") and re.search(k["pattern"], r["failure"][2]):
            line = "KNOWN-FINDING: property=%s %s" % (prop, k["what"])
            print(line, flush=True)
            known_lines.append(line)
        elif "error" in r:
            errors.append("known finding replay crashed: %s" % r)
        else:
            notes.append("known finding no longer reproduces (not suppressing anything now): %s" % k["what"])
            print("NOTE: listed known finding did not reproduce: %s" % k["what"], flush=True)

    # ---- native validation of every query on its fixed samples (encoding sanity; also catches gross breakage)
    native_runs = 0
    for q in queries:
        for nat in q.natives:
            r = native_call(prop, q.name, nat)
            native_runs += 1
            if r.get("return") is False:
                violations.append({"query": q.name, "args": nat, "native": r, "found_by": "native validation sample"})
            elif r.get("return") is not True:
                errors.append("native validation of %s%r: %s" % (q.name, nat, r))

    # ---- symbolic jobs
    jobs = []
    for q in queries:
        if os.environ.get("VERIF_NATIVES_ONLY"):
            for v in violations:
                print(json.dumps(v, default=str)[:1500])
            for e in errors:
                print(e[:3000])
            break
        parts = q.partitions(tier, seed)
        for p in parts:
            jobs.append((q, p))
    if tier == "thorough" and jobs:
        # The thorough products over-subscribe the budget: give every query its share (round-robin over the queries) and let
        # the seed decide which partitions of a query come first, so that repeated runs explore different parts.
        import random
        rnd = random.Random(seed)
        per_query = {}
        for q, p in jobs:
            per_query.setdefault(q.name, []).append((q, p))
        for lst in per_query.values():
            rnd.shuffle(lst)
        jobs = []
        while any(per_query.values()):
            for lst in per_query.values():
                if lst:
                    jobs.append(lst.pop(0))
    results = []
    running = []
    pending = list(jobs)
    deadline = t0 + budget
    n = 0
    stop_launch = False
    while pending or running:
        while pending and len(running) < NCPU and not stop_launch:
            if time.time() > deadline:
                break
            q, p = pending.pop(0)
            n += 1
            out = os.path.join(scratch_root, "r%d.json" % n)
            sc = os.path.join(scratch_root, "w%d" % n)
            to = min(q.timeout(tier), max(20.0, deadline - time.time()))
            log = open(os.path.join(scratch_root, "w%d.log" % n), "w")
            pr = subprocess.Popen([PY, "-u", os.path.join(HERE, "worker.py"), prop, q.name, json.dumps(p), tier, str(to), out, sc],
                                  stdout=log, stderr=subprocess.STDOUT,
                                  env=dict(os.environ, PYTHONDONTWRITEBYTECODE="1", PYTHONHASHSEED="0", TMPDIR=scratch_root))
            running.append((pr, q, p, out, sc, time.time(), to, log.name))
        if time.time() > deadline and pending:
            for q, p in pending:
                results.append({"query": q.name, "partition": p, "status": "INCONCLUSIVE", "paths": 0, "confirmed_paths": 0,
                                "solver_checks": 0, "solver_s": 0.0, "messages": [{"state": "NOT-RUN", "message": "tier budget exhausted"}]})
            pending = []
        time.sleep(0.2)
        still = []
        for item in running:
            pr, q, p, out, sc, ts, to, logn = item
            rc = pr.poll()
            hard = time.time() - ts > to * 1.5 + 120
            if rc is None and not hard:
                still.append(item)
                continue
            if rc is None:
                pr.kill()
                pr.wait()
            if os.path.exists(out):
                r = json.load(open(out))
            else:
                tail = open(logn).read()[-1500:]
                r = {"query": q.name, "partition": p, "status": "INCONCLUSIVE" if hard else "ERROR", "paths": 0, "confirmed_paths": 0,
                     "solver_checks": 0, "solver_s": 0.0,
                     "messages": [{"state": "KILLED" if hard else "CRASH", "message": "worker rc=%s %s" % (rc, tail)}]}
            shutil.rmtree(sc, ignore_errors=True)
            results.append(r)
            if r["status"] == "REFUTED":
                # replay natively before believing it
                nr = native_call(prop, q.name, r["counterexample"])
                r["native_replay"] = nr
                if nr.get("return") is False:
                    violations.append({"query": q.name, "args": r["counterexample"], "native": nr, "found_by": "solver counterexample",
                                       "crosshair_message": r["messages"][0]["message"] if r["messages"] else ""})
                    stop_launch = True
                else:
                    r["status"] = "ERROR"
                    errors.append("counterexample of %s %r did not reproduce natively: %s | %s" % (q.name, r["counterexample"], nr, r["messages"][:1]))
            elif r["status"] == "ERROR":
                errors.append("%s %r: %s" % (q.name, p, " | ".join("%s %s ... %s" % (m.get("state"), m.get("message", "")[:300], m.get("tb", "")[-900:]) for m in r["messages"])))
        running = still
        if stop_launch and pending:
            for q, p in pending:
                results.append({"query": q.name, "partition": p, "status": "INCONCLUSIVE", "paths": 0, "confirmed_paths": 0,
                                "solver_checks": 0, "solver_s": 0.0, "messages": [{"state": "NOT-RUN", "message": "stopped after a violation"}]})
            pending = []
    shutil.rmtree(scratch_root, ignore_errors=True)

    # ---- report
    viol_lines = []
    for v in violations:
        h = hashlib.sha1(json.dumps([v["query"], v["args"]], sort_keys=True).encode()).hexdigest()[:10]
        path = os.path.join(VERIF, "evidence", "replays", "%s-%s.json" % (prop, h))
        json.dump({"property": prop, "query": v["query"], "args": v["args"], "labels": v["native"].get("labels"),
                   "failure": v["native"].get("failure"), "found_by": v["found_by"],
                   "crosshair_message": v.get("crosshair_message", "")}, open(path, "w"), indent=1)
        f = v["native"].get("failure") or ["?", "", ""]
        print("counterexample %s(%s): %s -- %s" % (v["query"], v["args"], f[0], f[1][:400]))
        print("  history: %s" % f[2][:600])
        line = "VIOLATION property=%s replay=%s" % (prop, path)
        print(line, flush=True)
        viol_lines.append(line)

    write_evidence(prop, tier, seed, mod, queries, results, violations, errors, notes, known_lines, native_runs, time.time() - t0)
    st = {}
    for r in results:
        st[r["status"]] = st.get(r["status"], 0) + 1
    print("%s %s: natives %d, partitions %s, paths %d, solver checks %d, wall %.0fs" % (
        prop, tier, native_runs, st, sum(r.get("paths", 0) for r in results), sum(r.get("solver_checks", 0) for r in results), time.time() - t0))
    if violations:
        return 1
    if errors:
        for e in errors[:4]:
            print("HARNESS-ERROR: " + e[:1200])
        return 3
    return 0


def write_evidence(prop, tier, seed, mod, queries, results, violations, errors, notes, known_lines, native_runs, wall):
    paths = sum(r.get("paths", 0) for r in results)
    seqs = set()
    samples = []
    encoded = set()
    stubs = set()
    suppressed = {}
    for r in results:
        for s in r.get("all_label_seqs", []):
            seqs.add((r["query"], tuple(s)))
        for s in r.get("samples", [])[:1]:
            if len(samples) < 8 and s:
                samples.append({"query": r["query"], "partition": r.get("partition"), "path_labels": s})
        encoded.update(r.get("functions_encoded", []))
        stubs.update(r.get("stubs", []))
        for k, v in r.get("suppressed", {}).items():
            suppressed[k] = suppressed.get(k, 0) + v
    nontrivial = len([s for s in seqs if len(s[1]) >= 2])
    qrows = [{"name": r["query"], "partition": r.get("partition"), "status": r["status"], "paths": r.get("paths", 0),
              "confirmed_paths": r.get("confirmed_paths", 0), "solver_checks": r.get("solver_checks", 0),
              "solver_s": r.get("solver_s", 0.0), "wall_s": r.get("wall_s", 0.0)} for r in results]
    exhaustive = bool(results) and all(r["status"] == "CONFIRMED" for r in results)
    if not samples:
        samples = [{"note": "no path completed"}]
    ev = {
        "property_id": prop, "tier": tier, "seed": seed, "level": "other",
        "coverage": {
            "explanation": "Solver-based bounded checking of the real code: each query is a harness over the public modelx API whose "
                           "parameters are symbolic; CrossHair executes /repo's modelx byte-code symbolically and z3 decides every branch on "
                           "a symbolic value. CONFIRMED = the path tree of that partition was exhausted and the post-condition proved on "
                           "every path (all values within the stated bounds); INCONCLUSIVE = budget ended first (nothing failed). " + (mod.__doc__ or "").strip(),
            "evaluations": max(paths, 0) + native_runs,
            "distinct_nontrivial": nontrivial,
            "rule": "evaluations = symbolic paths executed (each covers all values of the symbolic value-variables on that path) + native "
                    "validation runs; distinct_nontrivial = distinct (query, sequence of concrete decision labels) with at least two labels "
                    "(at least one operation and one observation)",
            "samples": samples,
            "exhaustive": exhaustive,
            "bounds": {q.name: q.bounds(tier) for q in queries},
            "outside_bounds": sorted({o for q in queries for o in q.outside}),
            "queries": qrows,
            "queries_confirmed": len([r for r in results if r["status"] == "CONFIRMED"]),
            "queries_inconclusive": len([r for r in results if r["status"] == "INCONCLUSIVE"]),
            "queries_refuted": len([r for r in results if r["status"] == "REFUTED"]),
            "solver": "z3 %s via crosshair-tool %s" % (_z3v(), _chv()),
            "solver_checks": sum(r.get("solver_checks", 0) for r in results),
            "solver_s": round(sum(r.get("solver_s", 0.0) for r in results), 2),
            "functions_encoded": sorted(encoded),
            "stubs": sorted(stubs),
            "known_findings_reported": known_lines,
            "known_finding_paths_suppressed": suppressed,
            "notes": notes,
            "harness_errors": errors[:20],
            "trusted_base": ["CrossHair models of int/bool/tuple/list/dict/str", "z3", "harness oracles", "stubs listed above"],
        },
        "assumptions": sorted(stubs) + ["values are Python ints (unbounded z3 Int)", "bounds listed in coverage.bounds",
                                        "model construction under NoTracing uses concrete arguments only"],
        "wall_s": round(wall, 1),
        "violations": len(violations),
    }
    os.makedirs(os.path.join(VERIF, "evidence"), exist_ok=True)
    tmp = os.path.join(VERIF, "evidence", prop + ".json.tmp")
    json.dump(ev, open(tmp, "w"), indent=1, default=str)
    os.replace(tmp, os.path.join(VERIF, "evidence", prop + ".json"))


def _z3v():
    try:
        import z3
        return z3.get_version_string()
    except Exception:
        return "?"


def _chv():
    try:
        import crosshair
        return crosshair.__version__
    except Exception:
        return "?"


if __name__ == "__main__":
    sys.exit(main())
