"""One worker process = one (query, partition): symbolic execution of the harness over the real modelx
with CrossHair/z3.  Writes a JSON result file; never prints VIOLATION itself (run.py replays first).

usage: worker.py <property> <query-name> <partition-json> <tier> <timeout-s> <out.json> <scratch-dir>
"""
import os
import sys
import json
import time
import importlib
import importlib.util
import re
import traceback

HERE = os.path.dirname(os.path.abspath(__file__))
REPO = os.environ.get("VERIF_REPO", "/repo")      # MANIFEST commands use /repo; tools/run_seeded.py points this at a scratch worktree
sys.path.insert(0, REPO)
sys.path.insert(0, HERE)
sys.path.insert(0, os.path.join(HERE, "..", "harness"))
sys.setrecursionlimit(20000)


def gen_wrapper_source(q, part, twin=False):
    """Source of a module holding the function CrossHair analyses: only the unpinned parameters remain in the
    signature, pinned selectors are passed as constants, pre-conditions are rewritten accordingly."""
    import inspect
    fn = getattr(q.fn, "__wrapped_harness__", q.fn)
    sig = inspect.signature(fn)
    free, callargs = [], []
    ranges = {n: v for n, v in part.items() if isinstance(v, (list, tuple))}      # [lo, hi] = stays symbolic, pre-condition added
    part = {n: v for n, v in part.items() if n not in ranges}
    for n, p in sig.parameters.items():
        if n in part:
            callargs.append("%s=%r" % (n, part[n]))
        else:
            ann = p.annotation
            ann = ann.__name__ if isinstance(ann, type) else str(ann)
            free.append("%s: %s" % (n, ann))
            callargs.append("%s=%s" % (n, n))
    pres = []
    for e in q.pre:
        names = set(re.findall(r"[A-Za-z_][A-Za-z_0-9]*", e))
        ee = e
        for n in part:
            ee = re.sub(r"\b%s\b" % re.escape(n), repr(part[n]), ee)
        if names & set(sig.parameters) <= set(part):
            if not eval(ee, {}):
                return None            # partition infeasible under the pre-condition
            continue
        pres.append(ee)
    pres = ["%d <= %s <= %d" % (v[0], n, v[1]) for n, v in ranges.items()] + pres
    doc = "".join("    pre: %s\n" % p for p in pres) + "    post: %s\n" % ("False" if twin else "_")
    name = "q_twin" if twin else "q_main"
    return ("def %s(%s) -> bool:\n    \"\"\"\n%s    \"\"\"\n    return _Q.fn(%s)\n"
            % (name, ", ".join(free), doc, ", ".join(callargs)))


def main():
    prop, qname, part_json, tier, timeout, out, scratch = sys.argv[1:8]
    part = json.loads(part_json)
    timeout = float(timeout)
    t_start = time.time()
    os.environ["VERIF_SCRATCH"] = scratch
    os.makedirs(scratch, exist_ok=True)
    import shim
    stubs = shim.install(native=False)
    import kit
    mod = importlib.import_module(prop.lower())
    q = [x for x in mod.QUERIES if x.name == qname][0]
    kit.ctx.query = qname
    kit.ctx.prop = prop
    kit.ctx.known = [(k["property"], re.compile(k["pattern"]), k["what"])
                     for k in json.load(open(os.path.join(HERE, "..", "known_findings.json")))["findings"]
                     if k.get("status") == "known" and k.get("query", qname) == qname]

    result = {"property": prop, "query": qname, "partition": part, "tier": tier, "status": "ERROR", "paths": 0,
              "confirmed_paths": 0, "solver_checks": 0, "solver_s": 0.0, "messages": [], "stubs": list(stubs)}

    def finish():
        result["wall_s"] = round(time.time() - t_start, 2)
        tmp = out + ".tmp"
        json.dump(result, open(tmp, "w"))
        os.replace(tmp, out)

    src_main = gen_wrapper_source(q, part)
    if src_main is None:
        result["status"] = "INFEASIBLE"
        finish()
        return
    src = "import kit\n_Q = None\n\n" + src_main + "\n" + gen_wrapper_source(q, part, twin=True)
    wpath = os.path.join(scratch, "wrap_%s_%d.py" % (qname, os.getpid()))
    open(wpath, "w").write(src)
    spec = importlib.util.spec_from_file_location("wrap_%d" % os.getpid(), wpath)
    wmod = importlib.util.module_from_spec(spec)
    sys.modules[spec.name] = wmod
    spec.loader.exec_module(wmod)
    wmod._Q = q

    # concrete warm-up (lazy imports, networkx argmap compilation, modelx dynamic caches) before tracing
    warm_ok = None
    for nat in q.natives[:2]:
        try:
            q.fn(**nat)
        except Exception:
            pass

    import crosshair.core_and_libs  # noqa: registers opcode patches and library models
    shim.real_regex()
    result["stubs"] = list(shim.STUBS)
    import crosshair.core as cc
    import crosshair.statespace as cs
    from crosshair.options import AnalysisOptionSet
    from crosshair.tracers import NoTracing

    stats = {"paths": 0, "checks": 0, "solver_s": 0.0}
    label_seqs = {}
    label_counts = {}
    suppressed = {}
    failures = []
    cex = {}

    orig_attempt = cc.attempt_call

    def attempt(*a, **k):
        stats["paths"] += 1
        try:
            return orig_attempt(*a, **k)
        finally:
            key = tuple(kit.ctx.labels)
            label_seqs[key] = label_seqs.get(key, 0) + 1
            for lb in kit.ctx.labels:
                label_counts[lb] = label_counts.get(lb, 0) + 1
            for w in kit.ctx.suppressed:
                suppressed[w] = suppressed.get(w, 0) + 1
            if kit.ctx.failure is not None:
                failures.append(list(kit.ctx.failure))
    cc.attempt_call = attempt

    orig_sat = cs.solver_is_sat

    def sat(solver, *exprs):
        t0 = time.perf_counter()
        try:
            return orig_sat(solver, *exprs)
        finally:
            stats["checks"] += 1
            stats["solver_s"] += time.perf_counter() - t0
    cs.solver_is_sat = sat
    for m in list(sys.modules.values()):
        if m is not None and getattr(m, "__name__", "").startswith("crosshair") and getattr(m, "solver_is_sat", None) is orig_sat:
            m.solver_is_sat = sat

    orig_msg = cc.make_counterexample_message

    def mk(conditions, args, return_val=None):
        s = orig_msg(conditions, args, return_val)
        try:
            with NoTracing():
                d = cc.deep_realize(dict(args.arguments))
                cex["args"] = {k: (bool(v) if isinstance(v, bool) else int(v) if isinstance(v, int) else v) for k, v in d.items()}
        except BaseException as e:  # noqa
            cex["args_error"] = repr(e)
        return s
    cc.make_counterexample_message = mk

    analyses = []
    orig_act = cc.analyze_calltree

    def act(options, conditions):
        r = orig_act(options, conditions)
        analyses.append(r)
        return r
    cc.analyze_calltree = act

    # functions encoded: code objects under /repo/modelx that ran while CrossHair was tracing
    encoded = set()
    try:
        mon = sys.monitoring
        TOOL = 3
        mon.use_tool_id(TOOL, "verif-cov")

        def on_start(code, off):
            fnm = code.co_filename
            if fnm.startswith(REPO + "/modelx/"):
                encoded.add("%s:%s" % (fnm[len(REPO) + 1:], code.co_qualname))
            return mon.DISABLE
        mon.register_callback(TOOL, mon.events.PY_START, on_start)
    except Exception:
        mon = None

    def analyse(fn, budget):
        opts = AnalysisOptionSet(per_condition_timeout=budget, per_path_timeout=min(budget, 180.0), report_all=True,
                                 max_uninteresting_iterations=10 ** 9)
        return cc.run_checkables(cc.analyze_function(fn, opts))

    # ---- reachability twin: must be refuted (a path reaches the end of the harness) and replay natively
    twin_ok = False
    twin_states = None
    try:
        msgs = analyse(wmod.q_twin, min(timeout, 120.0))
        st = twin_states = [m.state.name for m in msgs]
        if "POST_FAIL" in st and "args" in cex:
            targs = {k: v for k, v in part.items() if not isinstance(v, (list, tuple))}
            targs.update(cex["args"])
            r = q.fn(**targs)      # not tracing here: native execution
            twin_ok = isinstance(r, bool)
            result["twin"] = {"args": cex["args"], "native_return": r}
        else:
            result["twin"] = {"states": st, "messages": [m.message[:300] for m in msgs]}
    except BaseException as e:  # noqa
        result["twin"] = {"error": repr(e), "tb": traceback.format_exc()[-1500:]}
    twin_stats = dict(stats)
    stats.update({"paths": 0, "checks": 0, "solver_s": 0.0})
    label_seqs.clear(), label_counts.clear(), suppressed.clear(), failures.clear(), cex.clear(), analyses.clear()

    # ---- main query
    if mon is not None:
        mon.set_events(TOOL, mon.events.PY_START)
    t0 = time.time()
    try:
        msgs = analyse(wmod.q_main, timeout)
    except BaseException as e:  # noqa
        result["status"] = "ERROR"
        result["messages"] = [{"state": "CRASH", "message": repr(e), "tb": traceback.format_exc()[-3000:]}]
        finish()
        return
    finally:
        if mon is not None:
            mon.set_events(TOOL, 0)
    result["analysis_wall_s"] = round(time.time() - t0, 2)
    states = [m.state.name for m in msgs]
    result["messages"] = [{"state": m.state.name, "message": m.message[:1500], "tb": (m.traceback or "")[-1500:]} for m in msgs]
    result["paths"] = stats["paths"]
    result["solver_checks"] = stats["checks"]
    result["solver_s"] = round(stats["solver_s"], 3)
    result["twin_paths"] = twin_stats["paths"]
    result["confirmed_paths"] = analyses[-1].num_confirmed_paths if analyses else 0
    result["functions_encoded"] = sorted(encoded)
    result["distinct_label_seqs"] = len(label_seqs)
    result["label_counts"] = label_counts
    seqs = sorted(label_seqs, key=lambda s: (-len(s), s))
    result["samples"] = [list(s) for s in seqs[:3] + seqs[len(seqs) // 2: len(seqs) // 2 + 2]]
    result["all_label_seqs"] = [list(s) for s in seqs[:4000]]
    result["suppressed"] = suppressed
    result["failures"] = failures[-3:]
    text = " ".join(m.message for m in msgs)
    if any(s in ("POST_FAIL", "EXEC_ERR", "POST_ERR") for s in states):
        if "NotDeterministic" in text or "CrossHairInternal" in text:
            result["status"] = "ERROR"
        elif "args" in cex:
            a = {k: v for k, v in part.items() if not isinstance(v, (list, tuple))}
            a.update(cex["args"])
            result["status"] = "REFUTED"
            result["counterexample"] = a
        else:
            result["status"] = "ERROR"
    elif "PRE_UNSAT" in states or "SYNTAX_ERR" in states or "IMPORT_ERR" in states:
        result["status"] = "ERROR"
    elif states == ["CONFIRMED"]:
        result["status"] = "CONFIRMED" if (twin_ok and result["confirmed_paths"] > 0) else "ERROR"
        if result["status"] == "ERROR" and twin_states is not None and not any(
                x in ("CONFIRMED", "POST_FAIL", "PRE_UNSAT", "EXEC_ERR", "POST_ERR", "SYNTAX_ERR", "IMPORT_ERR") for x in twin_states):
            # the twin ran out of time before it reached the end of the harness (no verdict either way): nothing is claimed
            result["status"] = "INCONCLUSIVE"
            result["messages"].append({"state": "TWIN_TIMEOUT", "message": "reachability twin did not finish within its budget"})
        if result["status"] == "ERROR":
            result["messages"].append({"state": "VACUITY", "message": "reachability twin failed or no confirmed path"})
    else:
        result["status"] = "INCONCLUSIVE"
    finish()


if __name__ == "__main__":
    main()
