"""Environment stubs needed to execute the real modelx under CrossHair (DESIGN.md section 2).

Every stub is verif-side; nothing is written to /repo.  `install(native=...)` is called once per
worker before any harness module is imported.  The list returned is copied into the evidence file.
"""
import os
import re
import sys
import functools

STUBS = []
NATIVE = False            # True: replay / validation without CrossHair tracing


class _Null:
    def __enter__(self):
        return self

    def __exit__(self, *a):
        return False


def notrace():
    """Context manager: suspend CrossHair tracing (no-op when running natively)."""
    if NATIVE:
        return _Null()
    from crosshair.tracers import NoTracing, is_tracing
    if not is_tracing():
        return _Null()
    return NoTracing()


def realize(v):
    if NATIVE:
        return v
    from crosshair.core import realize as _r
    from crosshair.tracers import is_tracing
    if not is_tracing():
        return v
    return _r(v)


def is_symbolic(v):
    """True iff v is a CrossHair symbolic (type() lies under tracing, so look at the real class with tracing off)."""
    if NATIVE:
        return False
    from crosshair.util import CrossHairValue
    with notrace():
        return isinstance(v, CrossHairValue)


def deep_realize(v):
    if NATIVE:
        return v
    from crosshair.core import deep_realize as _r
    from crosshair.tracers import is_tracing
    if not is_tracing():
        return v
    return _r(v)


def _untraced(fn):
    @functools.wraps(fn)
    def w(*a, **k):
        with notrace():
            return fn(*a, **k)
    w.__verif_untraced__ = True
    return w


def install(native=False):
    global NATIVE
    NATIVE = native
    import networkx as nx

    # 1. networkx dict factories: `dict` is intercepted by CrossHair (ShellMutableMap is hashable and breaks
    #    nx.add_nodes_from's TypeError idiom); a `{}` literal is not.
    def _plain():
        return {}
    for cls in (nx.Graph, nx.DiGraph):
        for a in ("node_dict_factory", "node_attr_dict_factory", "adjlist_outer_dict_factory",
                  "adjlist_inner_dict_factory", "edge_attr_dict_factory", "graph_attr_dict_factory"):
            setattr(cls, a, staticmethod(_plain))
    STUBS.append("networkx.Graph.*_dict_factory -> function returning a {} literal (CrossHair intercepts dict())")

    # 2. warm networkx's lazily compiled argmap entry points used by modelx
    used = set()
    core = os.path.join(os.environ.get("VERIF_REPO", "/repo"), "modelx", "core")
    for f in os.listdir(core):
        if f.endswith(".py"):
            for m in re.finditer(r"\bnx\.([A-Za-z_]+)", open(os.path.join(core, f)).read()):
                used.add(m.group(1))
    known = {"descendants", "ancestors", "topological_sort", "is_directed_acyclic_graph", "edge_bfs", "edge_dfs",
             "relabel_nodes", "add_path", "DiGraph", "__version__", "NetworkXUnfeasible", "NetworkXError",
             "NetworkXNoCycle", "find_cycle", "simple_cycles", "Graph"}
    unknown = used - known
    if unknown:
        print("HARNESS-ERROR: modelx uses networkx entry points the shim does not warm: %s" % sorted(unknown))
        sys.exit(3)
    g = nx.DiGraph()
    nx.add_path(g, [1, 2, 3])
    g.add_edge(1, 3)
    g.add_node(4, x=1)
    nx.descendants(g, 1), nx.ancestors(g, 3), list(nx.topological_sort(g)), nx.is_directed_acyclic_graph(g)
    list(nx.edge_bfs(g, 1)), list(nx.edge_dfs(g, 1)), nx.relabel_nodes(g, {1: 10}), g.copy(), g.subgraph([1, 2]).copy()
    g.remove_node(4), g.remove_nodes_from([3]), list(g.predecessors(2)), list(g.successors(1)), g.has_node(1)
    try:
        nx.find_cycle(g)
    except Exception:
        pass
    STUBS.append("networkx argmap entry points used by modelx (%s) compiled once before tracing" % ", ".join(sorted(used & known)))

    import modelx  # noqa  (after the nx patch so that modelx's graphs pick it up)
    import textwrap
    import modelx.core.formula as mf
    import modelx.core.errors as me
    import modelx.core.system as ms

    # 8. textwrap.dedent/indent are mis-executed under tracing (re MULTILINE interception)
    if not native:
        for mod in (textwrap, mf, me):
            for n in ("dedent", "indent"):
                f = getattr(mod, n, None)
                if f is not None and not getattr(f, "__verif_untraced__", False):
                    setattr(mod, n, _untraced(f))
        import inspect
        if not getattr(inspect.cleandoc, "__verif_untraced__", False):
            inspect.cleandoc = _untraced(inspect.cleandoc)
        STUBS.append("textwrap.dedent/indent, inspect.cleandoc (incl. names bound in modelx.core.formula/errors) run under NoTracing: "
                     "CrossHair's re interception strips all indentation even from concrete str")

    # 7. temporary directories: CrossHair models `random` as a nondeterministic source (tempfile names get nan)
    if not native:
        import tempfile
        import shutil as _shutil
        _counter = [0]
        _real_rmtree = _shutil.rmtree
        _real_makedirs = os.makedirs

        def _newdir(suffix=None, prefix=None, dir=None):
            with notrace():
                _counter[0] += 1
                base = dir or os.environ.get("VERIF_SCRATCH") or tempfile.gettempdir()
                d = os.path.join(base, "%s%d_%d%s" % (prefix or "vtmp", os.getpid(), _counter[0], suffix or ""))
                _real_makedirs(d, exist_ok=True)
                return d

        class _TD:
            def __init__(self, suffix=None, prefix=None, dir=None, ignore_cleanup_errors=False, **kw):
                self.name = _newdir(suffix, prefix, dir)

            def __enter__(self):
                return self.name

            def __exit__(self, *a):
                self.cleanup()

            def cleanup(self):
                with notrace():
                    _real_rmtree(self.name, ignore_errors=True)
        tempfile.TemporaryDirectory = _TD
        tempfile.mkdtemp = _newdir
        STUBS.append("tempfile.TemporaryDirectory/mkdtemp -> deterministic counter-named directory under the check's scratch root "
                     "(CrossHair replaces `random`, tempfile's name generator breaks)")

    # 9. zipfile stamps members with time.time() (nondeterministic under CrossHair, 1970 is refused by the zip format):
    #    the archive primitives run untraced; their arguments (paths, text produced by modelx) are concrete.
    if not native:
        import zipfile
        for n in ("writestr", "write", "close", "open", "read", "namelist", "infolist", "getinfo", "extract", "extractall", "mkdir"):
            f = getattr(zipfile.ZipFile, n, None)
            if f is not None and not getattr(f, "__verif_untraced__", False):
                setattr(zipfile.ZipFile, n, _untraced(f))
        zipfile.ZipInfo.from_file = classmethod(_untraced(zipfile.ZipInfo.from_file.__func__))
        STUBS.append("zipfile.ZipFile primitives run under NoTracing (they read the clock; member names and data are concrete)")

    # 13. pandas readers/writers are Cython code that rejects CrossHair's container replacements (set() -> ShellMutableSet):
    #     the csv/excel entry points run untraced (frames are concrete data in every harness)
    if not native:
        try:
            import pandas as _pd
            for n in ("read_csv", "read_excel"):
                f = getattr(_pd, n)
                if not getattr(f, "__verif_untraced__", False):
                    setattr(_pd, n, _untraced(f))
            for cls in (_pd.DataFrame, _pd.Series):
                for n in ("to_csv", "to_excel", "equals"):
                    f = getattr(cls, n)
                    if not getattr(f, "__verif_untraced__", False):
                        setattr(cls, n, _untraced(f))
            STUBS.append("pandas.read_csv/read_excel and DataFrame/Series.to_csv/to_excel/equals run under NoTracing (Cython code, concrete data)")
        except ImportError:
            pass

    # 3. clock
    if hasattr(ms, "_trace_time"):
        ms._trace_time = lambda: 0
    import time as _time
    STUBS.append("modelx.core.system._trace_time -> constant (CrossHair models time.* as nondeterministic)")
    return STUBS


_FORMULA_MEMO = {}


def memo_formulas():
    """Optional stub for harnesses whose subject is NOT formula capture (everything except C04/C20): constructing a
    Formula from the same (text, name) again copies the first result instead of re-running ast/asttokens/compile.
    Formula construction is a pure function of its arguments; the compiled function object is only used as a code
    template (BoundFunction re-creates functions over the live namespace)."""
    import modelx.core.formula as mf
    if getattr(mf.Formula.__init__, "__verif_memo__", False):
        return
    orig = mf.Formula.__init__

    def init(self, func, name=None, module=None):
        if isinstance(func, str):
            key = (func, name, module)
            hit = _FORMULA_MEMO.get(key)
            if hit is None:
                orig(self, func, name, module)
                _FORMULA_MEMO[key] = self
            else:
                for a in ("func", "signature", "source", "module", "_is_lambda"):
                    setattr(self, a, getattr(hit, a))
        else:
            orig(self, func, name, module)
    init.__verif_memo__ = True
    mf.Formula.__init__ = init
    STUBS.append("Formula(text, name) memoised per process for harness-generated model text (not in C04/C20)")


def real_regex():
    """Stub 10: CrossHair's own regex engine (used for symbolic str) mis-executes some patterns even on concrete strings
    (MULTILINE margins in textwrap.dedent, modelx's serializer section scanner).  No harness needs symbolic regex
    matching, so every re.Pattern method is routed to CPython's engine on realised arguments."""
    import re
    import crosshair.core_and_libs  # noqa
    from crosshair.core import _PATCH_REGISTRATIONS, with_realized_args
    for n in ("search", "match", "fullmatch", "split", "findall", "finditer", "sub", "subn", "prefixmatch"):
        f = getattr(re.Pattern, n, None)
        if f is not None:
            _PATCH_REGISTRATIONS[f] = with_realized_args(f)
    _PATCH_REGISTRATIONS.pop(re._compile, None)
    # Stub 11: CrossHair answers isinstance(obj, T) by issubclass(type(obj), T), which ignores __instancecheck__
    # (ast.Str / ast.Num in modelx's serializer: a docstring node was not recognised under tracing).
    from crosshair.util import CrossHairValue
    from crosshair.tracers import NoTracing
    orig_isinstance = _PATCH_REGISTRATIONS.get(isinstance)

    def _isinstance(obj, types):
        with NoTracing():
            if not isinstance(obj, CrossHairValue):
                return isinstance(obj, types)          # concrete object: CPython is authoritative
        return orig_isinstance(obj, types)
    if orig_isinstance is not None:
        _PATCH_REGISTRATIONS[isinstance] = _isinstance
    # Stub 12: no short-circuiting.  CrossHair may replace a call to any function that carries a contract (its own patches of
    # repr(), time.*, random.* among them) by an arbitrary value of the return type ("proxyreturn").  That over-approximates
    # the real code (repr() of a str became an arbitrary string inside modelx's serializer); every call runs its real body.
    import crosshair.core as _cc
    _cc.ShortCircuitingContext.make_interceptor = lambda self, original: original
    STUBS.append("CrossHair short-circuiting of contract-bearing functions disabled: repr(), time.*, random.* execute their real bodies")
    STUBS.append("isinstance() on concrete objects answered by CPython (CrossHair's replacement ignores __instancecheck__, e.g. ast.Str)")
    STUBS.append("re.Pattern.* run CPython's regex engine on realised arguments (CrossHair's symbolic regex engine mis-executes "
                 "some patterns on concrete strings)")
