"""Regenerates /verif/MANIFEST.json from the harness modules present (tools, not a check)."""
import json, os, sys
HERE = os.path.dirname(os.path.abspath(__file__))
V = os.path.abspath(os.path.join(HERE, ".."))
props = [json.loads(l) for l in open(os.path.join(V, "properties.jsonl"))]
NOTES = json.load(open(os.path.join(V, "tools", "manifest_notes.json")))
checks, na = [], []
for p in props:
    pid = p["id"]
    n = NOTES.get(pid, {})
    if os.path.exists(os.path.join(V, "harness", pid.lower() + ".py")) and not n.get("not_applicable"):
        checks.append({
            "property_id": pid,
            "quick_cmd": "./check %s quick" % pid,
            "thorough_cmd": "./check %s thorough" % pid,
            "evidence_file": "/verif/evidence/%s.json" % pid,
            "replay_cmd_template": "./check %s --replay {path}" % pid,
            "engine": "crosshair-z3-symbolic-execution",
            "level_claimed": {"category": "other",
                              "text": n.get("level", "Bounded solver-based checking: symbolic execution of the real modelx code (CrossHair + z3); every partition reported CONFIRMED was exhausted over all values of the symbolic variables within the bounds listed in the evidence file."),
                              "design_ref": "DESIGN.md section 4 (%s)" % pid},
            "level_note": n.get("note", "Trusted: CrossHair's models of Python builtins, z3, the harness oracle, the environment stubs listed in the evidence; bounds in evidence.coverage.bounds; INCONCLUSIVE partitions are not claimed."),
            "technique": n.get("technique", "bounded symbolic execution of /repo's modelx with CrossHair, branches decided by z3; counterexamples replayed natively"),
        })
    else:
        na.append({"property_id": pid, "reason": n.get("not_applicable", "no check registered yet in this revision of /verif")})
m = {
    "version": 1,
    "setup_cmd": "./setup.sh",
    "hooks": {"guard": "MODELX_VERIF", "enable": "no hooks are needed: checks import modelx from /repo's working tree and observe it through the public API",
              "baseline_off_cmd": "cd /repo && /venv/bin/python -m pytest -ra -q -p no:cacheprovider --timeout=900 --continue-on-collection-errors",
              "source_commits": [], "add_only": True},
    "engines": [{"name": "crosshair-z3-symbolic-execution", "path": "/verif/engine", "serves_properties": [c["property_id"] for c in checks],
                 "kind_free_text": "symbolic execution of the Python implementation (CrossHair 0.0.110, sys.monitoring tracer) with z3 deciding branches; per-partition exhaustion; native replay of counterexamples"}],
    "checks": checks,
    "not_applicable": na,
    "notes": "exit 0 = held on everything explored (KNOWN-FINDING lines possible), 1 = VIOLATION (replayed natively), 3 = harness error. known_findings.json is read-only at run time.",
}
json.dump(m, open(os.path.join(V, "MANIFEST.json"), "w"), indent=1)
print("checks:", [c["property_id"] for c in checks], "n/a:", [x["property_id"] for x in na])
