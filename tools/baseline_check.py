"""Run the repository's pinned test command and compare with /root/.vp/BASELINE.json stable_pass."""
import json, subprocess, sys, xml.etree.ElementTree as ET, os, tempfile
b = json.load(open("/root/.vp/BASELINE.json"))
out = tempfile.mktemp(suffix=".xml")
tree = sys.argv[1] if len(sys.argv) > 1 else "/repo"
cmd = b["cmd"].replace("<file>", out).replace("cd /repo", "cd " + tree)
subprocess.run(cmd, shell=True, stdout=subprocess.DEVNULL, stderr=subprocess.DEVNULL)
passed = set()
for tc in ET.parse(out).getroot().iter("testcase"):
    if not any(ch.tag in ("failure", "error", "skipped") for ch in tc):
        passed.add((tc.get("classname") + "::" + tc.get("name")).replace(tree, "/repo"))
os.unlink(out)
missing = [t for t in b["stable_pass"] if t not in passed]
print("stable_pass %d, passed now %d, stable tests not passing: %d" % (len(b["stable_pass"]), len(passed), len(missing)))
for t in missing[:40]:
    print("  NOT PASSING:", t)
sys.exit(1 if missing else 0)
