#!/bin/bash
# tools/collect_seed.sh <Cxx> [suffix]: re-verify a sub-agent's change in its scratch worktree and copy it to /verif/seeded/M_<Cxx><suffix>
# (development aid) - checks: patch applies to a clean tree, demo fails with it and passes without, stable baseline passes with it.
set -u
P=$1; SUF=${2:-}; W=${3:-/tmp/mut_$P}; D=/verif/seeded/M_$P$SUF
cd $W || exit 2
test -f _seeded/patch.diff || { echo "no patch"; exit 2; }
git checkout -q -- . ; git status --short | grep -v "^??"
/venv/bin/python _seeded/demo.py > /tmp/demo_clean.log 2>&1; RC0=$?
git apply _seeded/patch.diff || { echo "patch does not apply"; exit 2; }
/venv/bin/python _seeded/demo.py > /tmp/demo_mut.log 2>&1; RC1=$?
echo "demo: clean exit $RC0, with change exit $RC1"
tail -3 /tmp/demo_mut.log
/venv/bin/python /verif/tools/baseline_check.py $W | tail -3; RCB=${PIPESTATUS[0]}
git checkout -q -- .
if [ $RC0 -eq 0 ] && [ $RC1 -ne 0 ] && [ $RCB -eq 0 ]; then
  mkdir -p $D; cp _seeded/patch.diff _seeded/demo.py $D/
  /venv/bin/python - <<PY
import json
m=json.load(open("$W/_seeded/meta.json"))
m["property"]="$P"
m["origin"]="independent sub-agent, given only the property text and a scratch worktree"
m["what_i_ran"]="in $W: demo.py on the clean tree (exit $RC0) and with patch.diff applied (exit $RC1); tools/baseline_check.py with the change: all 869 stable tests pass"
json.dump(m,open("$D/meta.json","w"),indent=1)
PY
  echo "KEPT $D"
else
  echo "REJECTED (clean=$RC0 mut=$RC1 baseline=$RCB)"
fi
