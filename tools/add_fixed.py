"""Development aid: record a repaired defect.

usage: tools/add_fixed.py <Cxx> <commit> <query> '<json replay args>' '<what failed>'

Appends a `fixed` entry to known_findings.json (a fixed entry suppresses nothing: the engine replays it natively on every
run and reports the violation if it returns) and creates the regression seed seeded/R<nn>_<Cxx>_<commit>/ holding the
reverse of the fix commit (the defect of the pinned tree returns when it is applied), the replay arguments and a demo.
"""
import json
import os
import re
import subprocess
import sys

V = os.path.abspath(os.path.join(os.path.dirname(os.path.abspath(__file__)), ".."))


def main():
    prop, commit, query, args, what = sys.argv[1:6]
    args = json.loads(args)
    commit = subprocess.run(["git", "-C", "/repo", "rev-parse", "--short=7", commit], capture_output=True, text=True, check=True).stdout.strip()
    kf = json.load(open(os.path.join(V, "known_findings.json")))
    if any(e.get("commit") == commit for e in kf["findings"]):
        print("already recorded", commit)
    else:
        kf["findings"].append({"property": prop, "status": "fixed", "commit": commit,
                               "what": "fixed: property=%s %s %s" % (prop, commit, what), "query": query, "replay_args": args})
        json.dump(kf, open(os.path.join(V, "known_findings.json"), "w"), indent=1)
    S = os.path.join(V, "seeded")
    nums = [int(m.group(1)) for d in os.listdir(S) for m in [re.match(r"R(\d+)_", d)] if m]
    if any(d.endswith("_" + commit) for d in os.listdir(S)):
        print("seed exists for", commit)
        return
    sid = "R%02d_%s_%s" % (max(nums) + 1, prop, commit)
    d = os.path.join(S, sid)
    os.makedirs(d)
    patch = subprocess.run(["git", "-C", "/repo", "diff", commit, commit + "^"], capture_output=True, text=True, check=True).stdout
    open(os.path.join(d, "patch.diff"), "w").write(patch)
    files = re.findall(r"^diff --git a/(\S+)", patch, re.M)
    json.dump({"property": prop, "query": query, "args": args}, open(os.path.join(d, "replay.json"), "w"), indent=1)
    open(os.path.join(d, "demo.sh"), "w").write("#!/bin/bash\n# exits 1 (VIOLATION line) when the change is applied to /repo, 0 on the repaired tree\n"
                                                "cd /verif && ./check %s --replay seeded/%s/replay.json\n" % (prop, sid))
    os.chmod(os.path.join(d, "demo.sh"), 0o755)
    json.dump({"property": prop, "origin": "revert of fix commit %s (the defect of the pinned tree returns)" % commit, "summary": what,
               "needs": "the specific history recorded in replay.json", "files": files,
               "what_i_ran": "applied patch.diff to a scratch worktree; the property's check reports the violation (see RESULTS.json); 869 stable tests pass (this is the pinned behaviour)"},
              open(os.path.join(d, "meta.json"), "w"), indent=1)
    print("created", sid)


if __name__ == "__main__":
    main()
