#!/bin/bash
# Offline construction of the overlay venv the checks run in.
# /venv (repo interpreter + deps) is left untouched; crosshair + z3 come from the wheelhouse.
set -e
cd "$(dirname "$0")"
V=/verif/.venv
if [ -x $V/bin/python ] && $V/bin/python -c "import crosshair, z3, modelx, networkx" 2>/dev/null; then
    exit 0
fi
rm -rf $V
/venv/bin/python -m venv $V
SP=$($V/bin/python -c "import sysconfig; print(sysconfig.get_paths()['purelib'])")
printf "import site; site.addsitedir('/venv/lib/python3.12/site-packages')\n" > $SP/_verif_overlay.pth
PIP_NO_INDEX=1 $V/bin/pip install -q --no-index --find-links /opt/veriftools/wheels crosshair-tool z3-solver
$V/bin/python -c "import crosshair, z3, modelx, networkx; print('overlay ok', crosshair.__version__, z3.get_version_string(), modelx.__file__)"
