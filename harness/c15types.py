"""Value classes used by a C15 corpus entry; importable without modelx (the exported package unpickles them)."""
import enum


class Pct(float):
    def factor(self):
        return 1 + float(self)


class Basis(enum.IntEnum):
    YEARLY = 1
    MONTHLY = 12
