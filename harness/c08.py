"""C08 reported dependencies are exactly the calls made; graph and cache agree.  DAG kit with symbolic pointers and
values, cached/uncached mask, two requests and an optional value edit in between.  Oracle: the call relation derived
from the pointers (calls through uncached cells attach to the nearest cached caller)."""
from kit import *  # noqa
use_formula_memo()
import networkx as _nx
import os as _os

N = 3
MASKS = [0, 2, 1, 3, 4, 6, 5, 7]
MMAX = 3 if _os.environ.get("VERIF_TIER", "quick") == "quick" else 7
EDITS = ["none", "clear_at", "assign", "clear cells"]


def _deps(d, k, t):
    """Oracle preds of cached element (k,t): set of ('e',k',t') / ('o',k')."""
    out = set()
    for (kk, tt) in d.callees(k, t):
        if d.cached[kk]:
            out.add(("e", kk, tt))
        else:
            out.add(("o", kk))
            out |= _deps(d, kk, tt)
    return out


def _observe(d):
    """(held, preds, succs, precedent names, graph element nodes, acyclic) through the public API, concrete data only."""
    held = d.held()
    preds, succs, prec = {}, {}, {}
    for (k, t) in held:
        c = d.cells[k]
        preds[(k, t)] = set(("o", d.cells.index(n.obj)) if type(n).__name__ == "ObjectNode" else ("e", d.cells.index(n.obj), n.args[0]) for n in c.preds(t))
        succs[(k, t)] = set((d.cells.index(n.obj), n.args[0]) for n in c.succs(t))
        prec[(k, t)] = [n for n in c.precedents(t)] if (k, t) not in d.inputs else []
    g = d.m.tracegraph
    gnodes = set((d.cells.index(n[0].interface), n[1][0]) for n in g.nodes if len(n) > 1)
    return held, preds, succs, prec, gnodes, _nx.is_directed_acyclic_graph(g)


def _graph_ok(d, what):
    with notrace():
        held, preds, succs, prec, gnodes, acyc = _observe(d)
    if not check(gnodes == held, "graph element nodes == held elements (%s)" % what, lambda: (sorted(gnodes), sorted(held))):
        return False
    if not check(acyc, "dependency graph acyclic (%s)" % what):
        return False
    for (k, t) in sorted(held):
        exp = _deps(d, k, t)           # traced: reads the pointers the formula already decided
        with notrace():
            ok = preds[(k, t)] == exp
        if not check(ok, "preds c%d(%d) == calls made (%s)" % (k, t, what), lambda: (sorted(preds[(k, t)]), sorted(exp))):
            return False
    with notrace():
        inv = {x: set() for x in held}
        for x in held:
            for p in preds[x]:
                if p[0] == "e" and (p[1], p[2]) in inv:
                    inv[(p[1], p[2])].add(x)
        oksucc = all(succs[x] == inv[x] for x in held)
        okprec = True
        bad = None
        for (k, t) in held:
            if (k, t) in d.inputs:
                continue
            names = [getattr(n.obj, "name", None) for n in prec[(k, t)] if type(n).__name__ == "ReferenceNode"]
            need = ["v%d" % k, "g", "T%d" % k, "z", "hit"] + (["p1_%d" % k, "p2_%d" % k] if k > 0 else [])
            pn = set(("o", d.cells.index(n.obj)) if type(n).__name__ == "ObjectNode" else ("e", d.cells.index(n.obj), n.args[0])
                     for n in prec[(k, t)] if type(n).__name__ != "ReferenceNode")
            if not (set(need) <= set(names)) or pn != preds[(k, t)]:
                okprec, bad = False, ((k, t), names, need)
    if not check(oksucc, "succs is the inverse of preds (%s)" % what, lambda: (succs, inv)):
        return False
    return check(okprec, "precedents = preds + references read by the formula (%s)" % what, lambda: bad)


@harness
def deps(v0: int, v1: int, v2: int, z: int, g: int, p1_1: int, p2_1: int, p1_2: int, p2_2: int, T1: bool, T2: bool,
         mask: int, q1: int, t1: int, ek: int, ke: int, te: int, w: int, q2: int, t2: int) -> bool:
    mask, q1, t1, ek, q2, t2 = pick(mask, 0, MMAX), pick(q1, 0, 2), pick(t1, 0, 1), pick(ek, 0, 3), pick(q2, 0, 2), pick(t2, 0, 1)
    mask = MASKS[mask]
    cached = [not (mask >> k) & 1 for k in range(N)]
    label("uncached=%s" % [k for k in range(N) if not cached[k]])
    d = Dag(N, cached=cached)
    d.bind([v0, v1, v2], [-1, p1_1, p1_2], [-1, p2_1, p2_2], [False, T1, T2], z, g)
    label("req c%d(%d)" % (q1, t1))
    r = call(d.cells[q1], t1)
    if not check(r[0] == "ok" and r[1] == d.val(q1, t1), "first request", lambda: r):
        return False
    if not _graph_ok(d, "after first request"):
        return False
    if ek:
        ke, te = pick(ke, 0, 2), pick(te, 0, 1)
        if not cached[ke]:
            return True
        label("%s c%d(%d)" % (EDITS[ek], ke, te))
        if ek == 1:
            d.cells[ke].clear_at(te)
        elif ek == 2:
            d.cells[ke][te] = w
            d.inputs[(ke, te)] = w
        else:
            d.cells[ke].clear()
        if not _graph_ok(d, "after edit"):
            return False
    label("req c%d(%d)" % (q2, t2))
    r = call(d.cells[q2], t2)
    if not check(r[0] == "ok" and r[1] == d.val(q2, t2), "second request", lambda: r):
        return False
    return _graph_ok(d, "after second request")


def _refobs(m, cs):
    """(held element keys per cells, element nodes of the reference graph, names of the references precedents() lists per held ()-element)."""
    held = {nm: set(dict(c).keys()) for nm, c in cs.items()}
    impls = {c._impl: nm for nm, c in cs.items()}
    rnodes = set((impls.get(n[0], "?"), n[1]) for n in m._impl.refgraph.nodes if isinstance(n, tuple))
    names = {}
    for nm, c in cs.items():
        if () in held[nm]:
            names[nm] = sorted(getattr(n.obj, "name", "?") for n in c.precedents() if type(n).__name__ == "ReferenceNode")
    return held, rnodes, names


def _refs_ok(m, cs, reads, what):
    """reads: cells name -> names of the references its formula read by attribute path in the computation holding its value."""
    with notrace():
        held, rnodes, names = _refobs(m, cs)
        heldset = set((nm, k) for nm in held for k in held[nm])
        stale = sorted(rnodes - heldset)
        okheld = set(nm for nm in held if held[nm]) == set(reads)
        oknames = all([x for x in names.get(nm, []) if x in ("x", "y")] == sorted(reads[nm]) for nm in reads)
    if not check(okheld, "held elements as expected (%s)" % what, lambda: (held, sorted(reads))):
        return False
    if not check(not stale, "reference graph mentions held elements only (%s)" % what, lambda: stale):
        return False
    return check(oknames, "precedents() lists exactly the references read (%s)" % what, lambda: (names, reads))


@harness
def refpaths(x: int, y: int, x2: int, y2: int, lvl: int, ed: int) -> bool:
    """Attribute-path reads (P.x, Q.y), the second one only on a branch decided by a callee: after an edit of P.x the reference
    graph mentions no cleared element, and after the re-evaluation precedents() lists exactly what THIS computation read, so a
    later edit of Q.y discards B exactly when B read it."""
    lvl, ed = pick(lvl, 0, 1), pick(ed, 0, 1)
    label("B reads Q.y iff %s() > 0 ; %s" % ("A" if lvl == 0 else "Mid", "edit P.x" if ed == 0 else "clear A"))
    with notrace():
        m = new_model("RP")
        S = m.new_space("S")
        P, Q = S.new_space("P"), S.new_space("Q")
        P.x = x
        Q.y = y
        cs = {"A": S.new_cells("A", formula="lambda: P.x"), "Mid": S.new_cells("Mid", formula="lambda: A()"),
              "B": S.new_cells("B", formula="lambda: (Q.y if %s() > 0 else 0)" % ("A" if lvl == 0 else "Mid"))}
    B = cs["B"]

    def expect(xv):
        rd = {"A": ["x"], "B": ["y"] if xv > 0 else []}
        if lvl == 1:
            rd["Mid"] = []
        return rd
    r = call(B)
    if not check(r[0] == "ok" and r[1] == (y if x > 0 else 0), "first request", lambda: r):
        return False
    if not _refs_ok(m, cs, expect(x), "after first request"):
        return False
    if ed == 0:
        label("P.x = x2")
        P.x = x2
        cur = x2
    else:
        label("A.clear()")
        cs["A"].clear()
        cur = x
    if not _refs_ok(m, cs, {}, "after the edit"):
        return False
    r = call(B)
    if not check(r[0] == "ok" and r[1] == (y if cur > 0 else 0), "second request", lambda: r):
        return False
    if not _refs_ok(m, cs, expect(cur), "after second request"):
        return False
    label("Q.y = y2")
    Q.y = y2
    rd = expect(cur)
    if cur > 0:
        del rd["B"]
    if not _refs_ok(m, cs, rd, "after the edit of Q.y"):
        return False
    r = call(B)
    return check(r[0] == "ok" and r[1] == (y2 if cur > 0 else 0), "third request", lambda: r)


_NAT = dict(v0=1, v1=2, v2=3, z=4, g=5, p1_1=0, p2_1=-1, p1_2=1, p2_2=0, T1=False, T2=True)


def _parts(tier, seed):
    if tier == "quick":
        return product(mask=[0, 1, 2, 3], q1=[2], t1=[1], ek=[0], t2=[1], T1=[False]) + \
            product(mask=[0, 1, 2, 3], q1=[2], t1=[1], ek=[1, 2], ke=[0, 1, 2], t2=[1], T1=[False])
    return product(mask=list(range(8)), q1=[2, 1], t1=[1, 0], ek=[0, 1, 2, 3], q2=[2, 1, 0])


QUERIES = [
    Query("deps", deps,
          pre=dag_pre(N) + ["0 <= mask <= %d" % MMAX, "0 <= q1 < 3", "0 <= t1 <= 1", "0 <= ek < 4", "0 <= ke < 3", "0 <= te <= 1", "0 <= q2 < 3", "0 <= t2 <= 1"],
          partitions=_parts,
          natives=[dict(_NAT, mask=m, q1=2, t1=1, ek=e, ke=ke, te=te, w=50, q2=q2, t2=1)
                   for (m, e, ke, te, q2) in ((0, 0, 0, 0, 1), (1, 1, 0, 1, 2), (2, 2, 1, 0, 2), (3, 3, 2, 0, 2), (5, 2, 2, 0, 1), (7, 0, 0, 0, 2))],
          bounds=lambda tier: {"cells": N, "t_max": 1, "uncached_masks": MMAX + 1, "edits_between_requests": EDITS, "requests": 2, "dag": "pointers symbolic"},
          outside=["precedents() of an input element (raises AttributeError on a cells whose formula never ran: modelx defect outside the property)",
                   "dependencies through ItemSpaces", "N > 3", "failed evaluations (graph == held after a failure is asserted in C05)"]),
    Query("refpaths", refpaths,
          pre=["0 <= lvl <= 1", "0 <= ed <= 1"],
          partitions=lambda tier, seed: product(lvl=[0, 1], ed=[0, 1]),
          natives=[dict(x=1, y=10, x2=-1, y2=99, lvl=l, ed=e) for l in (0, 1) for e in (0, 1)] + [dict(x=-1, y=10, x2=2, y2=99, lvl=1, ed=0)],
          bounds=lambda tier: {"cells": 3, "references": "P.x, Q.y read by attribute path, all four values symbolic", "history": "request ; edit P.x / clear A ; request ; edit Q.y ; request"},
          outside=["more than one conditional attribute-path read per formula", "attribute paths longer than two names"]),
]
BUDGET = {"quick": 400, "thorough": 1200}
