"""C18 an IOSpec lives exactly as long as a reference to its value.  A history of operations chosen by symbolic
selectors over two spaces and the model (new_pandas, binding the value to further names, rebinding, deleting, update_pandas,
add_bases, rejected creations, close); pandas data are concrete.  Oracle: a harness-side table value -> names bound to it.
Selector-driven: the solver's part is the exhaustive case split over the histories."""
from kit import *  # noqa
import os as _os
import shutil as _sh
use_formula_memo()

OPS = ["S.new_pandas(p)", "T.q = value of S.p", "S.p = 5", "del S.p", "update_pandas(value, new)", "T.add_bases(S)", "del T.q", "model.new_pandas(mp)",
       "S.new_pandas on a clashing name", "second spec on the same file", "S.p2 = value of S.p", "T.remove_bases(S)", "write + read", "del model.T (space holding a reference to the value)", "S.p = the value it already has", "update_pandas(value) in place (same object)", "S.p = the cells S.c (rebinding to a modelx object)", "S.p = the space T", "model.new_space('U', refs={'q': value of S.p})", "del U.q", "S.copy(model, 'SC')"]
FILES = ["data/a.csv", "data/b.csv"]


def _df(k):
    import pandas as pd
    return pd.DataFrame({"c": [k, k + 1], "d": [1.5, 2.5]})


class St:
    """Oracle: bindings[(holder, name)] = value-id for own references whose value carries a spec."""

    def __init__(self):
        self.bind = {}
        self.vals = {}       # value-id -> (value, file)

    def live(self):
        return {vid for vid in self.bind.values()}


def _observe(m, st, what):
    with notrace():
        try:
            specs = list(m.iospecs)
        except Exception as e:
            return check(False, "model.iospecs raised (%s)" % what, "%s: %s" % (type(e).__name__, e))
        got = sorted(id(s.value) for s in specs)
        want = sorted(st.live())
        files = [(str(s.io.path)) for s in specs]
        dup = len(files) != len(set(files))
        def spec_of(val):
            try:
                return m.get_spec(val)
            except ValueError:          # "spec not found"
                return None
        back = all(spec_of(st.vals[v][0]) is not None for v in st.live())
        gone = all(spec_of(val) is None for v, (val, f) in st.vals.items() if v not in st.live())
        sane = True
        try:
            mx.core.mxsys._check_sanity()
            m._impl._check_sanity()
        except AssertionError:
            sane = False
    if not check(got == want, "model.iospecs == specs of the values currently bound to a reference (%s)" % what, lambda: (got, want, files)):
        return False
    if not check(not dup, "two specs claim the same file (%s)" % what, lambda: files):
        return False
    if not check(back and gone, "get_spec(value) consistent with the bindings (%s)" % what):
        return False
    return check(sane, "self-check (%s)" % what)


@harness
def history(o1: int, o2: int, o3: int, o4: int, f1: int) -> bool:
    f1 = pick(f1, 0, 1)
    base = _os.path.join(_os.environ.get("VERIF_SCRATCH", "/tmp"), "c18_%d" % _os.getpid())
    with notrace():
        _sh.rmtree(base, ignore_errors=True)
        _os.makedirs(base)
        m = new_model("IO")
        S, T = m.new_space("S"), m.new_space("T")
        S.new_cells("c", formula="lambda t: 1")
        st = St()
        counter = [0]
    inherits = False
    try:
        for i, o in enumerate((o1, o2, o3, o4)):
            o = pick(o, -1, len(OPS) - 1)
            if o < 0:
                break
            vid_p = st.bind.get(("S", "p"))
            if o in (1, 5, 6, 11) and "T" not in m.spaces:
                return True
            if o in (1, 4, 10, 14, 15, 18) and vid_p is None:
                return True            # operation needs the value bound to S.p
            label(OPS[o] + (" file=%s" % FILES[f1] if o in (0, 7, 9) else ""))
            with notrace():
                counter[0] += 1
                df = _df(counter[0] * 10)
            if o == 0:
                r = call(S.new_pandas, "p", FILES[f1], df, "csv")
                if r[0] == "ok":
                    old = st.bind.get(("S", "p"))
                    st.vals[id(df)] = (df, FILES[f1])
                    st.bind[("S", "p")] = id(df)
            elif o == 1:
                r = call(setattr, T, "q", st.vals[vid_p][0])
                if r[0] == "ok":
                    st.bind[("T", "q")] = vid_p
            elif o == 2:
                r = call(setattr, S, "p", 5)
                if r[0] == "ok":
                    st.bind.pop(("S", "p"), None)
            elif o == 18:
                if "U" in m.spaces:
                    return True
                r = call(m.new_space, "U", refs={"q": st.vals[vid_p][0]})
                if r[0] == "ok":
                    st.bind[("U", "q")] = vid_p
            elif o == 19:
                if ("U", "q") not in st.bind:
                    return True
                r = call(delattr, m.spaces["U"], "q")
                if not check(r[0] == "ok", "deleting a reference given at the creation of its space", lambda: r):
                    return False
                st.bind.pop(("U", "q"), None)
            elif o == 20:
                if "SC" in m.spaces:
                    return True
                r = call(S.copy, m, "SC")
                if r[0] == "ok":
                    for (holder, nm_), vid in list(st.bind.items()):
                        if holder == "S":
                            st.bind[("SC", nm_)] = vid
            elif o in (16, 17):
                if "p" not in S.refs or (o == 17 and "T" not in m.spaces):
                    return True
                r = call(setattr, S, "p", S.c if o == 16 else T)
                if r[0] == "ok":
                    st.bind.pop(("S", "p"), None)
            elif o == 3:
                r = call(delattr, S, "p")
                if r[0] == "ok":
                    st.bind.pop(("S", "p"), None)
            elif o == 4:
                oldval = st.vals[vid_p][0]
                r = call(m.update_pandas, oldval, df)
                if r[0] == "ok":
                    f = st.vals[vid_p][1]
                    st.vals[id(df)] = (df, f)
                    for kx in list(st.bind):
                        if st.bind[kx] == vid_p:
                            st.bind[kx] = id(df)
            elif o == 5:
                r = call(T.add_bases, S)
                if r[0] == "ok":
                    inherits = True
            elif o == 6:
                r = call(delattr, T, "q")
                if r[0] == "ok":
                    st.bind.pop(("T", "q"), None)
            elif o == 7:
                r = call(m.new_pandas, "mp", FILES[f1], df, "csv")
                if r[0] == "ok":
                    st.vals[id(df)] = (df, FILES[f1])
                    st.bind[("m", "mp")] = id(df)
            elif o == 8:
                r = call(S.new_pandas, "c", "data/clash.csv", df, "csv")
                if not check(r[0] == "err", "new_pandas on the name of a cells must be rejected", lambda: r):
                    return False
            elif o == 9:
                files_in_use = {st.vals[v][1] for v in st.live()}
                r = call(S.new_pandas, "second", FILES[f1], df, "csv")
                if FILES[f1] in files_in_use:
                    if not check(r[0] == "err", "a second spec on a file already claimed must be rejected", lambda: r):
                        return False
                elif r[0] == "ok":
                    st.vals[id(df)] = (df, FILES[f1])
                    st.bind[("S", "second")] = id(df)
            elif o == 10:
                r = call(setattr, S, "p2", st.vals[vid_p][0])
                if r[0] == "ok":
                    st.bind[("S", "p2")] = vid_p
            elif o == 11:
                if not inherits:
                    return True
                r = call(T.remove_bases, S)
                if r[0] == "ok":
                    inherits = False
            elif o == 13:
                if "T" not in m.spaces:
                    return True
                r = call(delattr, m, "T")
                if r[0] == "ok":
                    st.bind.pop(("T", "q"), None)
                    inherits = False
            elif o == 14:
                r = call(setattr, S, "p", st.vals[vid_p][0])
            elif o == 15:
                with notrace():
                    cur = st.vals[vid_p][0]
                    cur.loc[0, "c"] = 999          # the frame is mutated in place, then announced
                r = call(m.update_pandas, cur)
            elif o == 12:
                with notrace():
                    before = {k: st.vals[v][0] for k, v in st.bind.items()}
                r = call(mx.write_model, m, _os.path.join(base, "saved"))
                if not check(r[0] == "ok", "write_model raised", lambda: r):
                    return False
                r2 = call(mx.read_model, _os.path.join(base, "saved"), name="IOR")
                if not check(r2[0] == "ok", "read_model raised", lambda: r2):
                    return False
                with notrace():
                    ctx.models.append(r2[1])
                    okv = True
                    for (holder, name), val in before.items():
                        h = r2[1] if holder == "m" else r2[1].spaces[holder]
                        got = getattr(h, name)
                        if not (hasattr(got, "equals") and got.equals(val)):
                            okv = (holder, name)
                    nspecs = len(list(r2[1].iospecs))
                if not check(okv is True, "every live spec's value is written to its file and read back equal", lambda: okv):
                    return False
                if not check(nspecs == len(st.live()), "read model has one spec per live value", lambda: (nspecs, len(st.live()))):
                    return False
            label("-> %s" % ("ok" if r[0] == "ok" else r[1]))
            if not _observe(m, st, "after step %d" % (i + 1)):
                return False
        # closing the model removes all of its specs
        with notrace():
            m.close()
            left = [k for k in mx.core.mxsys.iomanager.ios if k[0] is m]
        return check(not left, "closing the model leaves IO objects behind", lambda: left)
    finally:
        with notrace():
            _sh.rmtree(base, ignore_errors=True)


NO = len(OPS)
QUERIES = [
    Query("history", history, pre=["-1 <= o1 < %d" % NO, "-1 <= o2 < %d" % NO, "-1 <= o3 < %d" % NO, "-1 <= o4 < %d" % NO, "0 <= f1 <= 1"],
          partitions=lambda tier, seed: ([dict(o1=0, f1=0, o2=a, o3=[-1, NO - 1], o4=-1) for a in range(NO) if a != 12] + [dict(o1=0, f1=0, o2=a, o3=b, o4=12) for (a, b) in ((1, 3), (4, 10), (5, 2), (10, 4), (7, 9))] +
                                         [dict(o1=a, o2=0, o3=[0, 4], o4=-1, f1=1) for a in (7, 8, 5)]) if tier == "quick" else
          [dict(o1=0, o2=a, o3=b, f1=f) for a in range(NO) for b in range(NO) for f in (0, 1)],
          natives=[dict(o1=a, o2=b, o3=c, o4=d, f1=f) for (a, b, c, d, f) in
                   ((0, 1, 3, 12, 0), (0, 4, 10, 12, 1), (0, 5, 2, -1, 0), (0, 10, 3, 6, 0), (7, 0, 9, 12, 0), (0, 8, 9, 3, 1), (0, 1, 6, 3, 0), (0, 5, 11, 12, 0), (0, 2, 0, 12, 1), (0, 1, 13, 3, 0), (0, 14, 3, -1, 0), (0, 1, 3, 13, 0), (0, 14, 12, -1, 1), (0, 15, 3, -1, 0), (0, 1, 15, 12, 0), (0, 15, 12, -1, 1), (0, 16, 9, -1, 0), (0, 17, 12, -1, 0), (0, 1, 16, 6, 0), (0, 10, 17, 3, 1), (0, 18, 3, 12, 0), (0, 18, 19, 3, 0), (0, 20, 3, 12, 1), (0, 20, 2, -1, 0))],
          bounds=lambda tier: {"operations": OPS, "history_length": "3 after the first new_pandas (quick) / 3 free (thorough); selected 4-step histories ending in write+read",
                               "holders": ["S", "T", "model"], "files": FILES},
          outside=["new_module / new_excel_range specs", "several models sharing absolute paths", "histories longer than 4"]),
]
BUDGET = {"quick": 420, "thorough": 1200}
