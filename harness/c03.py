"""C03 derived members equal re-derivation from defined members along the C3 order.  Inheritance kit: the base DAG
(which earlier space is a base of which, in which order), the subsets defining cells f / ref r and one or two edits are
symbolic selectors; the tags' companions w (own ref of every space) and the ref values are unbounded symbolic ints.
Oracles: CPython's C3 (type().__mro__) + a definitions table; and a second model built from scratch in the final
configuration."""
from inherit import *  # noqa
import os as _os

TIER = _os.environ.get("VERIF_TIER", "quick")
EDITS = ["define f", "redefine f", "delete f", "add base", "remove base", "set r", "delete r"]


def _decode_bases(n, cfg):
    """cfg bits: for each pair (j<i) whether j is a base of i; order bit per space: reverse the base list."""
    bases = {nm: [] for nm in NAMES[:n]}
    bit = 0
    for i in range(1, n):
        for j in range(i):
            if (cfg >> bit) & 1:
                bases[NAMES[i]].append(NAMES[j])
            bit += 1
    for i in range(2, n):
        if (cfg >> bit) & 1:
            bases[NAMES[i]].reverse()
        bit += 1
    return bases


def cfg_bits(n):
    return n * (n - 1) // 2 + max(0, n - 2)


def _apply(h, ed, x, y, val, counter):
    """Apply edit `ed` on space x (and y for base edits) to the live model and to the oracle table.
    Returns (applied: bool, result)."""
    X, Y = NAMES[x], NAMES[y]
    sp = h.sp(X)
    if ed == 0:
        if X in h.fdef:
            return False, None
        tag = 100 + counter
        if h.expected(X)[1] is not None:          # a derived f exists: overriding = assigning a formula to it
            r = call(setattr, sp.cells["f"], "formula", fsrc(tag))
        else:
            r = call(sp.new_cells, "f", formula=fsrc(tag))
        if r[0] == "ok":
            h.fdef[X] = tag
        return True, r
    if ed == 1:
        if X not in h.fdef:
            return False, None
        tag = 200 + counter
        r = call(setattr, sp.cells["f"], "formula", fsrc(tag))
        if r[0] == "ok":
            h.fdef[X] = tag
        return True, r
    if ed == 2:
        if X not in h.fdef:
            return False, None
        r = call(delattr, sp, "f")
        if r[0] == "ok":
            del h.fdef[X]
        return True, r
    if ed == 3:
        if y >= x or Y in h.bases[X]:
            return False, None
        nb = dict(h.bases)
        nb[X] = h.bases[X] + [Y]
        try:
            for nm in h.names:
                c3(nb, nm)
            legal = True
        except TypeError:
            legal = False
        r = call(sp.add_bases, h.sp(Y))
        if legal:
            if r[0] == "ok":
                h.bases = nb
            return True, r
        # no consistent linearisation: must be refused
        return True, ("ok", None) if r[0] == "err" else ("err", "accepted bases without a C3 linearisation", None)
    if ed == 4:
        if Y not in h.bases[X]:
            return False, None
        nb = dict(h.bases)
        nb[X] = [b for b in h.bases[X] if b != Y]
        try:
            for nm in h.names:
                c3(nb, nm)
        except TypeError:
            return False, None
        r = call(sp.remove_bases, h.sp(Y))
        if r[0] == "ok":
            h.bases = nb
        return True, r
    if ed == 5:
        r = call(setattr, sp, "r", val)
        if r[0] == "ok":
            h.rdef[X] = val
        return True, r
    if ed == 6:
        if X not in h.rdef:
            return False, None
        r = call(delattr, sp, "r")
        if r[0] == "ok":
            del h.rdef[X]
        return True, r
    raise ValueError(ed)


def _run(n, cfg, fmask, rmask, W, RV, edits):
    bases = _decode_bases(n, cfg)
    try:
        for nm in NAMES[:n]:
            c3(bases, nm)
    except TypeError:
        return True                      # configuration without a linearisation: rejected at construction (C11)
    fdef = {NAMES[i]: 10 * (i + 1) for i in range(n) if (fmask >> i) & 1}
    rdef = {NAMES[i]: RV[i] for i in range(n) if (rmask >> i) & 1}
    label("bases %s f in %s r in %s" % ({k: v for k, v in bases.items() if v}, sorted(fdef), sorted(rdef)))
    h = Inh(n, bases, fdef, rdef, {NAMES[i]: W[i] for i in range(n)}, "L")
    if not h.check_all("initial"):
        return False
    for i, (ed, x, y, val) in enumerate(edits):
        applied, r = _apply(h, ed, x, y, val, i)
        if not applied:
            return True                  # edit not applicable in this configuration
        label("%s %s%s%s" % (EDITS[ed], NAMES[x], (" " + NAMES[y]) if ed in (3, 4) else "", "" if r[0] == "ok" else " (rejected)"))
        if not check(r[0] == "ok" or r[1] != "accepted bases without a C3 linearisation", "bases without a C3 linearisation were accepted", lambda: r):
            return False
        # a rejected edit must leave everything as it was: the table is unchanged, so check_all tests exactly that
        if not h.check_all("after edit %d" % (i + 1)):
            return False
    # incremental == from scratch
    scratch = Inh(n, h.bases, h.fdef, h.rdef, h.W, "S")
    a, b = describe_inh(h), describe_inh(scratch)
    with notrace():
        same = a == b
    return check(same, "incremental maintenance == derivation from scratch", lambda: (a, b))


@harness
def members3(w0: int, w1: int, w2: int, r0: int, r1: int, r2: int, cfg: int, fmask: int, rmask: int,
             ed: int, x: int, y: int, val: int, ed2: int, x2: int, y2: int) -> bool:
    n = 3
    cfg, fmask, rmask, ed, x = pick(cfg, 0, 2 ** cfg_bits(n) - 1), pick(fmask, 0, 7), pick(rmask, 0, 7), pick(ed, 0, 6), pick(x, 0, 2)
    y = pick(y, 0, 2) if ed in (3, 4) else 0
    edits = [(ed, x, y, val)]
    if TIER != "quick":
        ed2, x2, y2 = pick(ed2, -1, 6), pick(x2, 0, 2), pick(y2, 0, 2)
        if ed2 >= 0:
            edits.append((ed2, x2, y2, val + 1))
    return _run(n, cfg, fmask, rmask, [w0, w1, w2], [r0, r1, r2], edits)


@harness
def members4(w0: int, w1: int, w2: int, w3: int, cfg: int, fmask: int, ed: int, x: int, y: int) -> bool:
    n = 4
    cfg, fmask, ed, x = pick(cfg, 0, 2 ** cfg_bits(n) - 1), pick(fmask, 0, 15), pick(ed, 0, 4), pick(x, 0, 3)
    y = pick(y, 0, 3) if ed in (3, 4) else 0
    return _run(n, cfg, fmask, 0, [w0, w1, w2, w3], [0, 0, 0, 0], [(ed, x, y, 0)])


@harness
def diamond5(w0: int, w1: int, w2: int, w3: int, w4: int, r0: int, fmask: int, rmask: int, ed: int, x: int, val: int) -> bool:
    """Five spaces, E reachable from B both directly and through the chain B <- C <- D:  B:[A], C:[B], D:[C], E:[D, B]."""
    fmask, rmask, ed, x = pick(fmask, 0, 7), pick(rmask, 0, 3), pick(ed, 0, 6), pick(x, 0, 2)
    bases = {"A": [], "B": ["A"], "C": ["B"], "D": ["C"], "E": ["D", "B"]}
    fdef = {NAMES[i]: 10 * (i + 1) for i in range(3) if (fmask >> i) & 1}
    rdef = {NAMES[i]: r0 + i for i in range(2) if (rmask >> i) & 1}
    label("chain+shortcut f in %s r in %s" % (sorted(fdef), sorted(rdef)))
    h = Inh(5, bases, fdef, rdef, dict(zip(NAMES, [w0, w1, w2, w3, w4])), "L")
    if not h.check_all("initial"):
        return False
    applied, r = _apply(h, ed, x, 0, val, 0)      # base edits: remove base x <- A (only B has A)
    if not applied:
        return True
    label("%s %s%s" % (EDITS[ed], NAMES[x], "" if r[0] == "ok" else " (rejected)"))
    if not h.check_all("after the edit"):
        return False
    scratch = Inh(5, h.bases, h.fdef, h.rdef, h.W, "S")
    a, b = describe_inh(h), describe_inh(scratch)
    with notrace():
        same = a == b
    return check(same, "incremental maintenance == derivation from scratch", lambda: (a, b))


REORDER_OPS = ["D.remove_bases(A)", "D.remove_bases(B)", "D.remove_bases(C)", "D.add_bases(A)", "D.add_bases(B)", "D.add_bases(C)", "E.add_bases(A) (unrelated space)", "E.remove_bases(A)"]


@harness
def reorder(w3: int, r0: int, s1: int, s2: int, s3: int) -> bool:
    """D:[A, B, C], every base defines f and r; a history of removing and re-adding bases of D, interleaved with structural
    edits of an unrelated space E: after every step bases == C3 of the CURRENT ordered base lists (a re-added base goes last)
    and the derived members are those of the first definer."""
    s1, s2, s3 = pick(s1, 0, 7), pick(s2, 0, 7), pick(s3, 0, 7)
    bases = {"A": [], "B": [], "C": [], "D": ["A", "B", "C"], "E": []}
    fdef = {"A": 10, "B": 20, "C": 30}
    rdef = {"A": r0, "B": r0 + 1, "C": r0 + 2}
    h = Inh(5, bases, fdef, rdef, dict(zip(NAMES, [1, 2, 3, w3, 5])), "L")
    if not h.check_all("initial"):
        return False
    for i, sel in enumerate((s1, s2, s3)):
        ed, x, y = (4, 3, sel) if sel < 3 else (3, 3, sel - 3) if sel < 6 else (3, 4, 0) if sel == 6 else (4, 4, 0)
        applied, r = _apply(h, ed, x, y, 0, i)
        if not applied:
            return True
        label("%s%s" % (REORDER_OPS[sel], "" if r[0] == "ok" else " (rejected)"))
        if not check(r[0] == "ok", "legal base edit raised", lambda: r):
            return False
        if not h.check_all("after step %d" % (i + 1)):
            return False
    scratch = Inh(5, h.bases, h.fdef, h.rdef, h.W, "S")
    a, b = describe_inh(h), describe_inh(scratch)
    with notrace():
        same = a == b
    return check(same, "incremental maintenance == derivation from scratch", lambda: (a, b))


_N3 = dict(w0=1, w1=2, w2=3, r0=11, r1=12, r2=13, val=55, ed2=-1, x2=0, y2=0)


def _parts3(tier, seed):
    if tier == "quick":
        # cells edits with every f-subset, refs edits with every r-subset; base DAG symbolic inside each partition
        return [dict(fmask=f, rmask=0, ed=[0, 4]) for f in range(8)] + [dict(fmask=2, rmask=r, ed=[5, 6]) for r in range(8)] + \
               [dict(fmask=5, rmask=5, ed=[3, 4]), dict(fmask=3, rmask=6, ed=[3, 4])]
    return [dict(fmask=f, rmask=r, ed=e) for f in range(8) for r in (0, 1, 2, 5, 7) for e in range(7)]


QUERIES = [
    Query("members3", members3,
          pre=["0 <= cfg < %d" % 2 ** cfg_bits(3), "0 <= fmask < 8", "0 <= rmask < 8", "0 <= ed < 7", "0 <= x < 3", "0 <= y < 3", "-1 <= ed2 < 7", "0 <= x2 < 3", "0 <= y2 < 3"],
          partitions=_parts3,
          natives=[dict(_N3, cfg=c, fmask=f, rmask=r, ed=e, x=x, y=y) for (c, f, r, e, x, y) in
                   ((0b0111, 3, 1, 1, 1, 0), (0b1111, 3, 2, 1, 1, 0), (0b0110, 1, 1, 3, 2, 0), (0b0111, 2, 0, 0, 0, 0), (0b0111, 3, 3, 2, 0, 0),
                    (0b0111, 7, 7, 4, 2, 0), (0b0001, 1, 1, 5, 1, 0), (0b0111, 1, 3, 6, 1, 0), (0b1111, 2, 2, 0, 0, 0))],
          bounds=lambda tier: {"spaces": 3, "base_dags": "all ordered-base DAGs respecting the numbering A<B<C (16 encodings)", "definers_of_f": "all 8 subsets",
                               "definers_of_r": "all 8 subsets", "edits": EDITS, "history": "1 edit (quick) / 2 edits (thorough)",
                               "values": "w of every space, r values: unbounded symbolic ints"},
          outside=["more than 4 spaces", "inheritance between child spaces (nested)", "more than 2 edits"]),
    Query("members4", members4,
          pre=["0 <= cfg < %d" % 2 ** cfg_bits(4), "0 <= fmask < 16", "0 <= ed < 5", "0 <= x < 4", "0 <= y < 4"],
          partitions=lambda tier, seed: (([dict(fmask=f, ed=1, cfg=[lo, lo + 31]) for f in (6, 9) for lo in range(0, 256, 32)] +
                                          [dict(fmask=1, ed=4, x=1, y=0, cfg=[lo, lo + 63]) for lo in range(0, 256, 64)] +
                                          [dict(fmask=f, ed=0, x=0, cfg=[lo, lo + 63]) for f in (2, 4) for lo in range(0, 256, 64)]) if tier == "quick" else
                                         [dict(fmask=f, ed=e, cfg=[lo, lo + 31]) for f in range(1, 16) for e in range(5) for lo in range(0, 256, 32)]),
          natives=[dict(w0=1, w1=2, w2=3, w3=4, cfg=c, fmask=f, ed=e, x=x, y=y) for (c, f, e, x, y) in
                   ((0b00111011, 3, 1, 1, 0), (0b10111111, 6, 2, 1, 0), (0b00110111, 9, 3, 3, 0), (0b00111111, 1, 4, 3, 1), (0b00110101, 1, 4, 1, 0), (0b10110101, 1, 4, 1, 0), (38, 2, 0, 0, 0))],
          bounds=lambda tier: {"spaces": 4, "base_dags": "256 encodings (6 edge bits + 2 order bits), those without a linearisation skipped",
                               "definers_of_f": "subsets per tier", "edits": EDITS[:5]},
          outside=["references in the 4-space query"]),
]
QUERIES.append(
    Query("diamond5", diamond5, pre=["0 <= fmask < 8", "0 <= rmask < 4", "0 <= ed < 7", "0 <= x < 3"],
          partitions=lambda tier, seed: [dict(ed=e) for e in range(7)],
          natives=[dict(w0=1, w1=2, w2=3, w3=4, w4=5, r0=7, fmask=f, rmask=r, ed=e, x=x, val=9) for (f, r, e, x) in ((1, 1, 4, 1), (3, 0, 2, 0), (1, 3, 6, 0), (5, 1, 1, 0), (2, 2, 4, 1), (1, 0, 0, 1))],
          bounds=lambda tier: {"spaces": "A; B:[A]; C:[B]; D:[C]; E:[D, B]", "definers_of_f": "subsets of {A,B,C}", "definers_of_r": "subsets of {A,B}", "edits": EDITS, "targets": "A, B, C"},
          outside=["other 5-space shapes"]))
QUERIES.append(
    Query("reorder", reorder, pre=["0 <= s1 < 8", "0 <= s2 < 8", "0 <= s3 < 8"],
          partitions=lambda tier, seed: [dict(s1=a_, s2=[0, 3]) for a_ in range(3)] + [dict(s1=a_, s2=[4, 7]) for a_ in range(3)] + [dict(s1=6)],
          natives=[dict(w3=4, r0=7, s1=a_, s2=b_, s3=c_) for (a_, b_, c_) in ((0, 1, 3), (0, 3, 6), (1, 4, 6), (2, 5, 0), (6, 0, 3), (0, 3, 1))],
          bounds=lambda tier: {"spaces": "A, B, C (definers of f and r); D:[A, B, C]; E unrelated", "operations": REORDER_OPS, "history": "3 operations, the first a removal from D or the unrelated edit", "values": "D.w, r values: unbounded symbolic ints"},
          outside=["histories longer than 3", "removing several bases in one call"]))
BUDGET = {"quick": 420, "thorough": 1200}
