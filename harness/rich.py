"""Rich kit (DESIGN.md section 3): one model with every kind of dependency path the properties name, a menu of edit
operations, and a set of observers.  Used by C02, C09, C13 (and C07 for the parametric part)."""
from kit import *  # noqa

use_formula_memo()

# name -> (source, cached)
S_CELLS = [
    ("a", "lambda t: x + t", True),
    ("b", "lambda t: a(t) + (b(t - 1) if t > 0 else y)", True),
    ("u", "lambda t: x - t", False),
    ("ua", "lambda: Sub.z", False),
    ("o_cell", "lambda: b(1)", True),
    ("o_ref", "lambda: x + y", True),
    ("o_glob", "lambda: g + 1", True),
    ("o_shadow", "lambda: hh + 2", True),
    ("o_attr_child", "lambda: Sub.z + Sub.sc()", True),
    ("o_attr_glob", "lambda: Sub.g", True),
    ("o_attr_self", "lambda: _space.x", True),
    ("o_unc", "lambda: u(1) + 1", True),
    ("o_unc_attr", "lambda: ua() + 1", True),
    ("o_derived", "lambda: bo()", True),
    ("o_item", "lambda: Pref[1].h(2)", True),
    ("o_item_child", "lambda: Pref(2).PC.pc()", True),
    ("o_us", "lambda: USref.uu() + USref.uc() + 1", True),
    ("o_us2", "lambda: USref.uu() + 2", True),          # through the uncached cells of the other space ONLY
    ("o_usw", "lambda: USref.w + 3", True),             # a reference of the other space, read by attribute
    ("o_dcell", "lambda: DDref.dc() + 1", True),        # through a DERIVED uncached cells of another space
    ("o_dref", "lambda: DDref.dv + 1", True),           # a DERIVED reference of another space, read by attribute
]
OBSERVERS = [n for n, _, _ in S_CELLS if n.startswith("o_")]
VALUES = ["g", "h", "bx", "x", "y", "sh", "z", "k"]


class Rich:
    def __init__(self, vals, tag="R", flags=None):
        """vals: dict name -> (symbolic) int for g, h, bx, x, y, sh (S.h shadowing m.h), z, k.  flags: optional dict
        cells-name -> is_cached overriding the defaults (C09)."""
        self.vals = dict(vals)
        with notrace():
            m = self.m = new_model(tag)
            m.g, m.hh = vals["g"], vals["h"]
            Base = self.Base = m.new_space("Base")
            Base.bx = vals["bx"]
            Base.new_cells("bf", formula="lambda t: t + bx")
            Base.new_cells("bo", formula="lambda: bf(1) * 2")
            Base2 = self.Base2 = m.new_space("Base2")
            Base2.new_cells("nb", formula="lambda: x * 3")
            P = self.P = m.new_space("P", formula=lambda n: None)
            P.k = vals["k"]
            P.new_cells("h", formula="lambda t: n * t + k")
            PC = P.new_space("PC")
            PC.new_cells("pc", formula="lambda: n + 1")
            Q = self.Q = m.new_space("Q", formula="lambda n: None")      # parametric, referenced by nothing
            Q.new_cells("qh", formula="lambda t: n * t")
            QQ = self.QQ = m.new_space("QQ", formula="lambda n: None")   # same, with a child space
            QQ.new_cells("qh", formula="lambda t: n * t")
            QQ.new_space("QC").new_cells("qc", formula="lambda: n + 1")
            QQ.QC.new_space("QG").new_cells("qg", formula="lambda: n + 2")       # grandchild of a parametric space
            DynB = self.DynB = m.new_space("DynB")                              # base chosen by the parameter formula of PB
            DynB.new_cells("db", formula="lambda: n + 3")
            DynB.new_space("DC").new_cells("dcc", formula="lambda: n + 4")
            PB = self.PB = m.new_space("PB", formula="lambda n: {'base': DynBref}")
            PB.DynBref = DynB
            PP = self.PP = m.new_space("PP")                              # its CHILD space is the base of another space
            PC2 = PP.new_space("PC2")
            PC2.kk = 1
            PC2.new_cells("cf", formula="lambda: kk + 1")
            QD = self.QD = m.new_space("QD", bases=PC2)
            QD2 = self.QD2 = m.new_space("QD2", bases=QD)
            S = self.S = m.new_space("S", bases=Base)
            S.x, S.y, S.hh = vals["x"], vals["y"], vals["sh"]
            S.Pref = P
            US = self.US = m.new_space("US")                              # another space, reached through a reference: uncached + cached cells
            US.w = 5
            US.new_cells("uu", formula="lambda: w", is_cached=flags is not None and bool(flags.get("uu", False)))   # reads a reference of ITS space by name
            US.new_cells("uc", formula="lambda: 7")
            S.USref = US
            DA, DB = m.new_space("DA"), m.new_space("DB")                 # two bases defining the same reference
            DA.dv, DB.dv = 1, 2
            DB.new_cells("dc", formula="lambda: dv * 2", is_cached=False)    # DD.dc: derived and uncached
            S.DDref = self.DD = m.new_space("DD", bases=[DA, DB])
            Sub = self.Sub = S.new_space("Sub")
            Sub.z = vals["z"]
            Sub.new_cells("sc", formula="lambda: z + 1")
            for name, src, cached in S_CELLS:
                c = S.new_cells(name, formula=src)
                want = cached if flags is None or name not in flags else flags[name]
                if not want:
                    c.is_cached = False

    def observe(self, names=None):
        """{observer: call-result} through the public API; handles are looked up afresh by name each time."""
        out = {}
        for n in (names or OBSERVERS):
            out[n] = call(lambda: self.m.spaces[self.sname()].cells[n]())
        return out

    def sname(self):
        return getattr(self, "_sname", "S")


# ---------------------------------------------------------------------------------------------------------
# Edit menu.  Each entry: (label, function(r: Rich, v) ) - executed by modelx under tracing; v is a symbolic int.
# ---------------------------------------------------------------------------------------------------------
def _S(r):
    return r.m.spaces[r.sname()]


def _sub(r):
    return _S(r).spaces[getattr(r, "_subname", "Sub")]


def e_recreate_sub(r, v):
    S = _S(r)
    del S.Sub
    Sub = S.new_space("Sub")
    Sub.z = v
    Sub.new_cells("sc", formula="lambda: z + 2")
    r._subname = "Sub"


def e_rename_S(r, v):
    _S(r).rename("S2")
    r._sname = "S2"


def e_rename_sub(r, v):
    _sub(r).rename("Sub2")
    r._subname = "Sub2"


EDITS = [
    ("S.x = v", lambda r, v: setattr(_S(r), "x", v)),                                   # 0 ref by name
    ("Sub.z = v", lambda r, v: setattr(_sub(r), "z", v)),                               # 1 ref read by attribute path
    ("m.g = v", lambda r, v: setattr(r.m, "g", v)),                                     # 2 model-level ref
    ("Sub.g = v (shadow model ref in child)", lambda r, v: setattr(_sub(r), "g", v)),    # 3
    ("S.g = v (shadow model ref in S)", lambda r, v: setattr(_S(r), "g", v)),            # 4
    ("del S.hh (un-shadow)", lambda r, v: delattr(_S(r), "hh")),                           # 5
    ("del S.y", lambda r, v: delattr(_S(r), "y")),                                       # 6
    ("S.a[1] = v", lambda r, v: _S(r).cells["a"].__setitem__(1, v)),                     # 7 input
    ("S.b[0] = v", lambda r, v: _S(r).cells["b"].__setitem__(0, v)),                     # 8
    ("S.a.clear_at(1)", lambda r, v: _S(r).cells["a"].clear_at(1)),                      # 9
    ("S.b.clear()", lambda r, v: _S(r).cells["b"].clear()),                              # 10
    ("S.a.clear_all()", lambda r, v: _S(r).cells["a"].clear_all()),                      # 11
    ("S.a.formula = x+2t+y", lambda r, v: setattr(_S(r).cells["a"], "formula", "lambda t: x + 2 * t + y")),   # 12
    ("Base.bf.formula changed", lambda r, v: setattr(r.m.Base.cells["bf"], "formula", "lambda t: t + bx + 1")),  # 13
    ("S overrides bf", lambda r, v: _S(r).new_cells("bf", formula="lambda t: 100 + t + x")),                   # 14
    ("del S.a.formula", lambda r, v: _S(r).cells["a"].__delattr__("formula")),           # 15
    ("new cells S.g shadows model ref", lambda r, v: _S(r).new_cells("g", formula="lambda: 7")),               # 16
    ("del S.a", lambda r, v: delattr(_S(r), "a")),                                       # 17
    ("S.a.rename(a2)", lambda r, v: _S(r).cells["a"].rename("a2")),                      # 18
    ("Sub.rename(Sub2)", e_rename_sub),                                                  # 19
    ("S.rename(S2)", e_rename_S),                                                        # 20
    ("S.remove_bases(Base)", lambda r, v: _S(r).remove_bases(r.m.Base)),                 # 21
    ("S.add_bases(Base2)", lambda r, v: _S(r).add_bases(r.m.Base2)),                     # 22
    ("del S.Sub; re-create", e_recreate_sub),                                            # 23
    ("P.k = v", lambda r, v: setattr(r.m.P, "k", v)),                                    # 24
    ("P.formula with default", lambda r, v: setattr(r.m.P, "formula", "lambda n, q=0: None")),                 # 25
    ("P.h.formula changed", lambda r, v: setattr(r.m.P.cells["h"], "formula", "lambda t: n * t + k + 1")),     # 26
    ("S.u.is_cached = True", lambda r, v: setattr(_S(r).cells["u"], "is_cached", True)),  # 27
    ("S.a.is_cached = False", lambda r, v: setattr(_S(r).cells["a"], "is_cached", False)),  # 28
    ("Base.bx = v", lambda r, v: setattr(r.m.Base, "bx", v)),                            # 29 base ref, derived in S
    ("S.bx = v (override derived ref)", lambda r, v: setattr(_S(r), "bx", v)),           # 30
    ("P.PC.pc.formula changed", lambda r, v: setattr(r.m.P.PC.cells["pc"], "formula", "lambda: n + 5")),       # 31
    ("S.Pref = Base2 -> P again", lambda r, v: (setattr(_S(r), "Pref", r.m.Base2), setattr(_S(r), "Pref", r.m.P))),  # 32
    ("Sub.sc.formula changed", lambda r, v: setattr(_sub(r).cells["sc"], "formula", "lambda: z + 3")),         # 33
    ("m.hh = v (shadowed in S)", lambda r, v: setattr(r.m, "hh", v)),                      # 34
    ("S.allow_none = True", lambda r, v: setattr(_S(r), "allow_none", True)),            # 35
    ("US.w = v (read by name by an uncached cells another space calls)", lambda r, v: setattr(r.m.US, "w", v)),   # 36
    ("del DA.dv (DD.dv now derives from DB)", lambda r, v: delattr(r.m.DA, "dv")),                          # 37
    ("DD.remove_bases(DA)", lambda r, v: r.m.DD.remove_bases(r.m.DA)),                                        # 38
    ("US.uu.is_cached = True (uncached cells another space computed through)", lambda r, v: setattr(r.m.US.cells["uu"], "is_cached", True)),   # 39
    ("DA.new_cells('dc') cached: DD.dc re-derives from it (was derived from the uncached DB.dc)", lambda r, v: r.m.DA.new_cells("dc", formula="lambda: dv * 3")),   # 40
]
CRITICAL = [0, 1, 2, 3, 7, 12, 13, 14, 24, 29, 5, 23]


def apply_edit(r, e, v):
    """Apply edit number e; returns call-style result (an edit that raises is part of the history on both models)."""
    return call(EDITS[e][1], r, v)
