"""C16 memory-optimised runs.  DAG kit (values, pointers symbolic), symbolic target set (one or two elements) and a
symbolic step size that flows into get_calcsteps' block arithmetic and slicing.  Oracle: closure/order from the pointers."""
from kit import *  # noqa
use_formula_memo()
import os as _os

N = 3
ELEMS = [(2, 1), (2, 0), (1, 1), (1, 0), (0, 1), (0, 0)]
SMAX = 2 * N + 1


PRE = ["clean model", "an element of c0 holds a user input", "an element of c1 holds a user input", "c0 uncached", "c1 uncached", "c0 and c1 uncached"]


def _body(V, P1, P2, T, z, g, a, b, step, pre=0, w=0, ti=0):
    targets = [ELEMS[a]] + ([ELEMS[b]] if b >= 0 and b != a else [])
    label("targets %s" % targets)
    cached = [pre not in (3, 5), pre not in (4, 5), True]
    if any(not cached[k] for (k, t) in targets):
        return True                      # targets are elements of cached cells
    d = Dag(N, cached=cached)
    d.bind(V, P1, P2, T, z, g)
    if pre:
        label(PRE[pre])
    if pre in (1, 2):
        kin = pre - 1
        if (kin, ti) in targets:
            return True                  # (targets that are inputs: outside the claim)
        d.cells[kin][ti] = w
        d.inputs[(kin, ti)] = w
    with notrace():
        held_before = d.held()
    nodes = [d.cells[k].node(t) for (k, t) in targets]
    acts = d.m.generate_actions(nodes, step_size=step)
    with notrace():
        label("step %s -> %d action blocks" % (realize_int(step), len(acts)))
    if not check(executor_idle(), "executor idle after generate_actions"):
        return False
    with notrace():
        held0 = d.held()
    if not check(held0 == held_before, "generate_actions leaves no calculated value behind (and keeps what was held)", lambda: (held0, held_before)):
        return False
    # ---- plan: every dependency in exactly one calc step, after all the elements it depends on
    need = []
    for (k, t) in targets:
        for x in d.closure(k, t):
            if x not in need and cached[x[0]] and x not in d.inputs:
                need.append(x)
    with notrace():
        calc = []
        okshape = True
        for i, (kind, ns) in enumerate(acts):
            okshape = okshape and kind == ("calc", "paste", "clear")[i % 3]
            if kind == "calc":
                calc.extend((d.cells.index(n.obj), n.args[0]) for n in ns)
        once = sorted(calc) == sorted(need)
    if not check(okshape, "actions come as calc/paste/clear triples"):
        return False
    if not check(once, "every needed element appears in exactly one calc step", lambda: (calc, need)):
        return False
    def cached_callees(x):
        """callees with uncached cells looked through, inputs excluded (they are not calculated)"""
        out = []
        for c in d.callees(*x):
            if not cached[c[0]]:
                out.extend(cached_callees(c))
            elif c not in d.inputs:
                out.append(c)
        return out
    for i, x in enumerate(calc):
        for c in cached_callees(x):
            with notrace():
                okord = c in calc[:i]
            if not check(okord, "element scheduled after its dependencies", lambda: (x, c, calc)):
                return False
    with notrace():
        mx_blocks = max([len(ns) for kind, ns in acts if kind == "calc"] or [0])
    if not check(mx_blocks <= step, "no calc step exceeds step_size"):
        return False
    # ---- run
    n0 = len(ctx.hits)
    r = call(d.m.execute_actions, acts)
    if not check(r[0] == "ok", "execute_actions raised", lambda: r):
        return False
    with notrace():
        ran = [h for h in ctx.hits[n0:] if cached[h[0]]]          # (uncached cells run once per call)
        nodup = len(set(ran)) == len(ran) and sorted(ran) == sorted(need)
        held = d.held()
        okheld = held == set(targets) | held_before
    if not check(nodup, "each needed element computed exactly once during the run", lambda: (ran, need)):
        return False
    if not check(okheld, "only the targets hold values after the run", lambda: (held, targets)):
        return False
    for (k, t) in targets:
        v = d.cells[k]._impl.data[(t,)]
        if not check(v == d.val(k, t), "target value == direct evaluation c%d(%d)" % (k, t)):
            return False
    return check(executor_idle(), "executor idle after the run")


@harness
def actions(v0: int, v1: int, v2: int, z: int, g: int, p1_1: int, p2_1: int, p1_2: int, p2_2: int, T1: bool, T2: bool,
            a: int, b: int, step: int) -> bool:
    a, b = pick(a, 0, 5), pick(b, -1, 5)
    return _body([v0, v1, v2], [-1, p1_1, p1_2], [-1, p2_1, p2_2], [False, T1, T2], z, g, a, b, step)


@harness
def prestate(v0: int, v1: int, v2: int, z: int, g: int, p1_1: int, p2_1: int, p1_2: int, p2_2: int, T1: bool, T2: bool,
             a: int, b: int, step: int, pre: int, w: int, ti: int) -> bool:
    """The same on a model that is not clean: a user input somewhere below the targets, or uncached cells on the way."""
    a, b, pre, ti = pick(a, 0, 5), pick(b, -1, 5), pick(pre, 1, 5), pick(ti, 0, 1)
    return _body([v0, v1, v2], [-1, p1_1, p1_2], [-1, p2_1, p2_2], [False, T1, T2], z, g, a, b, step, pre, w, ti)


def realize_int(x):
    return x if not is_symbolic(x) else "sym"


_NAT = dict(v0=1, v1=2, v2=3, z=4, g=5, p1_1=0, p2_1=-1, p1_2=1, p2_2=0, T1=False, T2=True)


def _parts(tier, seed):
    if tier == "quick":
        return product(a=[0], b=[-1, 1, 2, 3, 4, 5], T1=[False], p1_2=[-1, 0, 1], p2_2=[-1, 0, 1]) + \
            product(a=[2], b=[-1, 1, 3, 5], T1=[True], T2=[False])
    return product(a=list(range(6)), b=list(range(-1, 6)))


QUERIES = [
    Query("actions", actions,
          pre=dag_pre(N) + ["0 <= a < 6", "-1 <= b < 6", "1 <= step <= %d" % SMAX],
          partitions=_parts,
          natives=[dict(_NAT, a=0, b=2, step=s) for s in (1, 2, 3, 7)] + [dict(_NAT, a=2, b=-1, step=2), dict(_NAT, a=1, b=4, step=1)],
          bounds=lambda tier: {"cells": N, "t_max": 1, "targets": "1 or 2 elements out of 6", "step_size": "1..%d (symbolic, beyond the number of elements)" % SMAX,
                               "dag": "pointers symbolic"},
          outside=["more than two targets", "targets that are inputs", "N > 3"]),
]
QUERIES.append(
    Query("prestate", prestate,
          pre=dag_pre(N) + ["0 <= a < 6", "-1 <= b < 6", "1 <= step <= %d" % SMAX, "1 <= pre <= 5", "0 <= ti <= 1"],
          partitions=lambda tier, seed: (product(a=[0], b=[-1], pre=[1, 2, 3, 4, 5], T1=[False], p1_2=[0, 1], p2_2=[-1, 0, 1]) + product(a=[0], b=[1], pre=[1, 3], T1=[False], p1_2=[1], p2_2=[0])
                                         if tier == "quick" else product(a=[0, 1, 2], b=[-1, 1, 3, 5], pre=[1, 2, 3, 4, 5], p1_2=[-1, 0, 1])),
          natives=[dict(_NAT, a=0, b=-1, step=s_, pre=p_, w=100, ti=t_) for (s_, p_, t_) in ((2, 1, 0), (1, 1, 1), (3, 2, 0), (2, 3, 0), (1, 4, 0), (7, 5, 0), (2, 2, 1))] +
                  [dict(_NAT, p2_2=-1, a=0, b=1, step=2, pre=4, w=100, ti=0)],
          bounds=lambda tier: {"pre_states": PRE[1:], "input_value": "unbounded symbolic int", "targets": "c2(1) alone (all pre-states, c2 calling c0/c1 in every way) or with c2(0) (quick)", "step_size": "1..%d symbolic" % SMAX},
          outside=["values computed (not assigned) before generate_actions", "targets that are inputs or elements of uncached cells"]))
BUDGET = {"quick": 400, "thorough": 1200}
