"""C11 rejected edits change nothing; the inheritance relation stays well-formed.  A model with inheritance, a child
space, inputs, a parametric space; one operation from a menu of operations that modelx must reject (every rejection
reason x operations that trigger it), applied with or without values computed before; reference and input values are
unbounded symbolic ints.  Oracle: the public description of the whole model before == after, all values as before.
Kernel query: is_valid_name on symbolic strings over a small alphabet vs. the specification."""
from kit import *  # noqa
import keyword
import networkx as _nx
use_formula_memo()

BAD = [
    ("A.new_cells('r') clashes with a reference", lambda M: M.A.new_cells("r", formula="lambda: 1")),
    ("A.new_cells('Ch') clashes with a child space", lambda M: M.A.new_cells("Ch", formula="lambda: 1")),
    ("A.new_space('f') clashes with a cells", lambda M: M.A.new_space("f")),
    ("A.new_space('r') clashes with a reference", lambda M: M.A.new_space("r")),
    ("A.f = 3 on a non-scalar cells", lambda M: setattr(M.A, "f", 3)),
    ("A.new_cells('_x') underscore name", lambda M: M.A.new_cells("_x", formula="lambda: 1")),
    ("A.new_cells('1a') invalid identifier", lambda M: M.A.new_cells("1a", formula="lambda: 1")),
    ("A.new_space('a.b') invalid identifier", lambda M: M.A.new_space("a.b")),
    ("A.new_cells('class') keyword", lambda M: M.A.new_cells("class", formula="lambda: 1")),
    ("A.add_bases(B) cyclic", lambda M: M.A.add_bases(M.B)),
    ("A.add_bases(A) self", lambda M: M.A.add_bases(M.A)),
    ("new_space('E', bases=[A, B]) no C3 order", lambda M: M.m.new_space("E", bases=[M.A, M.B])),
    ("D.add_bases(A, B) no C3 order", lambda M: M.D.add_bases(M.A, M.B)),
    ("del B.f derived cells", lambda M: delattr(M.B, "f")),
    ("del B.r derived reference", lambda M: delattr(M.B, "r")),
    ("B.f.rename('zz') derived cells", lambda M: M.B.f.rename("zz")),
    ("A.f.formula = malformed text", lambda M: setattr(M.A.f, "formula", "lambda t: (")),
    ("A.new_cells('k', formula=malformed)", lambda M: M.A.new_cells("k", formula="def (:")),
    ("A.new_cells('k2', formula=not a function)", lambda M: M.A.new_cells("k2", formula="1 + 1")),
    ("A.f[1] = None without allow_none", lambda M: M.A.f.__setitem__(1, None)),
    ("A.set_ref('rr', C.f, 'relative') out of scope", lambda M: M.A.set_ref("rr", M.C.f, "relative")),
    ("A.set_ref('rr2', 1, 'bogus') unknown mode", lambda M: M.A.set_ref("rr2", 1, "bogus")),
    ("A.f.rename('r') clash", lambda M: M.A.f.rename("r")),
    ("A.f.rename('_p') invalid", lambda M: M.A.f.rename("_p")),
    ("A.Ch.rename('f') clash", lambda M: M.A.Ch.rename("f")),
    ("A.rename('B') clash at model level", lambda M: M.A.rename("B")),
    ("A.rename('no good') invalid", lambda M: M.A.rename("no good")),
    ("A.new_space('h') clashes with cells h of sub space B", lambda M: M.A.new_space("h")),
    ("A.h = 1 clashes with cells h of sub space B", lambda M: setattr(M.A, "h", 1)),
    ("P.formula = malformed", lambda M: setattr(M.P, "formula", "lambda n: (")),
    ("m.rename('bad name')", lambda M: M.m.rename("bad name")),
    ("B.remove_bases(C) not a base", lambda M: M.B.remove_bases(M.C)),
    ("del A.zz nonexistent", lambda M: delattr(M.A, "zz")),
    ("A.new_cells('f') duplicate", lambda M: M.A.new_cells("f", formula="lambda t: 0")),
    ("m.new_space('A') duplicate", lambda M: M.m.new_space("A")),
    ("m.A = 1 model ref clashes with space", lambda M: setattr(M.m, "A", 1)),
    ("m.new_space('gr') clashes with model ref", lambda M: M.m.new_space("gr")),
    ("A.u[1] = 5 on uncached cells", lambda M: M.A.u.__setitem__(1, 5)),
    ("A.f.formula = lambda with other name clash? (valid) ", None),
    ("A.new_cells_from nothing: new_cells(formula=None, name=None) is valid", None),
    ("C.f.set_formula twice invalid param formula P.parameters = ('1x',)", lambda M: setattr(M.P, "parameters", ("1x",))),
    ("B.add_bases(A) already a base", lambda M: M.B.add_bases(M.A)),
    ("A.new_space('S2', bases=[nonexistent model space])", lambda M: M.A.new_space("S2", bases=[M.other.X])),
    ("A.f[5] = None over an existing input, without allow_none", lambda M: M.A.f.__setitem__(5, None)),
    ("D.add_bases(X) where X holds a relative reference to an outside object", lambda M: M.D.add_bases(M.X)),
    ("new_space('E2', bases=X) with the same out-of-scope relative reference", lambda M: M.m.new_space("E2", bases=M.X)),
    ("B.add_bases(KC): cells r of KC clashes with B's derived reference r (B.f, derived, holds an input)", lambda M: M.B.add_bases(M.KC)),
    ("A.add_bases(KC): same clash one level up (sub space B holds the input)", lambda M: M.A.add_bases(M.KC)),
    ("B.f.formula = malformed on a DERIVED cells", lambda M: setattr(M.B.f, "formula", "lambda t: (")),
    ("A.f.is_cached = 'x'? (valid: truthy) / A.f.allow_none = 3 (valid) -> rename cells to keyword", lambda M: M.A.f.rename("lambda")),
    ("A.set_ref('r', C.f, 'relative') over the existing data reference r (out of scope for the sub space B)", lambda M: M.A.set_ref("r", M.C.f, "relative")),
    ("X.set_ref('rr', D, 'bogus') over an existing reference", lambda M: M.X.set_ref("rr", M.D, "bogus")),
    ("A.u.rename('h'): the sub space B defines a cells h of its own (refused, or B.h must stay B's own definition)", lambda M: M.A.u.rename("h"),
     lambda M: None if (M.B.h.formula.source == "lambda: f(1) + f(5)" and not M.B.h._is_derived()) else "the sub space's own cells was replaced by the renamed one: %r" % M.B.h.formula.source),
]
BAD = [b for b in BAD if b[1] is not None]


class Mdl:
    def __init__(self, vals, tag="E"):
        with notrace():
            m = self.m = new_model(tag)
            m.gr = vals["g"]
            A = self.A = m.new_space("A")
            A.r = vals["r"]
            A.new_cells("f", formula="lambda t: t + r + gr")
            A.new_cells("u", formula="lambda t: t - r", is_cached=False)
            A.f[5] = vals["inp"]
            Ch = A.new_space("Ch")
            Ch.new_cells("g", formula="lambda: gr * 2")
            B = self.B = m.new_space("B", bases=A)
            B.new_cells("h", formula="lambda: f(1) + f(5)")
            C = self.C = m.new_space("C")
            C.new_cells("f", formula="lambda t: 100 + t")
            D = self.D = m.new_space("D")
            D1, D2 = m.new_space("D1", bases=D), m.new_space("D2", bases=D)      # a diamond below D: a failing add_bases must undo all four
            m.new_space("D3", bases=[D1, D2])
            B.f[7] = 70                                   # input on a DERIVED cells
            KC = self.KC = m.new_space("KC")
            KC.new_cells("r", formula="lambda: 0")        # a cells named like A's reference r
            X = self.X = m.new_space("X")
            X.new_cells("xf", formula="lambda: 1")
            X.set_ref("rr", C.f, "relative")          # accepted while X has no sub space
            P = self.P = m.new_space("P", formula="lambda n: None")
            P.new_cells("ph", formula="lambda: n + gr")
            other = self.other = new_model(tag + "o")
            other.new_space("X")

    def observe(self):
        return {"A.f(2)": call(self.m.A.f, 2), "A.f(5)": call(self.m.A.f, 5), "B.h()": call(self.m.B.h), "A.Ch.g()": call(self.m.A.Ch.g),
                "P[1].ph()": call(lambda: self.m.P[1].ph()), "C.f(1)": call(self.m.C.f, 1), "A.u(3)": call(self.m.A.u, 3)}

    def expected(self, vals):
        r, g, inp = vals["r"], vals["g"], vals["inp"]
        return {"A.f(2)": 2 + r + g, "A.f(5)": inp, "B.h()": (1 + r + g) + (5 + r + g), "A.Ch.g()": g * 2, "P[1].ph()": 1 + g, "C.f(1)": 101, "A.u(3)": 3 - r}


def wellformed(m):
    """Accepted or rejected, afterwards: acyclic base relation, an MRO for every space, valid names only."""
    g = m._impl.spmgr._graph
    if not _nx.is_directed_acyclic_graph(g):
        return "base relation cyclic"
    names = []

    def walk(sp):
        names.append(sp.name)
        names.extend(sp.cells)
        try:
            sp.bases
        except Exception as e:
            return "no MRO for %s: %s" % (sp.fullname, e)
        for c in sp.spaces.values():
            w = walk(c)
            if w:
                return w
    for top in m.spaces.values():
        w = walk(top)
        if w:
            return w
    for n in names:
        if not (n.isidentifier() and not n.startswith("_") and not keyword.iskeyword(n)):
            return "invalid name became a member: %r" % n
    return None


@harness
def rejected(r: int, g: int, inp: int, op: int, pre: bool) -> bool:
    op, pre = pick(op, 0, len(BAD) - 1), pickb(pre)
    vals = dict(r=r, g=g, inp=inp)
    if "over an existing input" in BAD[op][0]:
        vals["inp"] = 50       # the error message prints the existing value: a symbolic one would be enumerated without end
    M = Mdl(vals)
    exp = M.expected(vals)
    if pre:
        label("values computed before")
        M.observe()
    with notrace():
        before = describe(M.m)
        before_o = describe(M.other)
        held_before = sorted((c.fullname, sorted(map(repr, dict(c)))) for c in (M.A.f, M.B.f, M.B.h, M.A.Ch.g, M.C.f))
    res = call(BAD[op][1], M)
    label("%s -> %s" % (BAD[op][0], "accepted" if res[0] == "ok" else res[1]))
    with notrace():
        wf = wellformed(M.m)
    if not check(wf is None, "model well-formed after the operation", lambda: wf):
        return False
    if res[0] == "ok":
        if len(BAD[op]) > 2:            # accepted: the well-formedness clause applies, and the operation's own post-condition
            with notrace():
                msg = BAD[op][2](M)
            return check(msg is None, "an accepted operation silently replaced another definition", lambda: msg)
        return True                     # modelx accepted it: only the well-formedness clause applies
    with notrace():
        after = describe(M.m)
        d = diff(before, after)
        d2 = diff(before_o, describe(M.other))
        held_after = sorted((c.fullname, sorted(map(repr, dict(c)))) for c in (M.A.f, M.B.f, M.B.h, M.A.Ch.g, M.C.f))
        sane = True
        try:
            M.m._impl._check_sanity()
        except AssertionError:
            sane = False
    if not check(d is None, "definitions unchanged by a rejected operation", lambda: d):
        return False
    if not check(d2 is None, "other model unchanged by a rejected operation", lambda: d2):
        return False
    # (a rejected operation may discard held values - they are recomputed; what must hold is that values stay correct)
    if not check(sane, "self-check after a rejected operation"):
        return False
    if not check(executor_idle(), "executor idle after a rejected operation"):
        return False
    got = M.observe()
    for k in sorted(exp):
        if not check(got[k][0] == "ok" and got[k][1] == exp[k], "value %s correct after a rejected operation" % k, lambda: (got[k], exp[k])):
            return False
    # ---- nothing else was half-done: the bookkeeping behind the definitions still supports the ordinary follow-up edits
    io = call(lambda: list(M.m.iospecs))
    if not check(io[0] == "ok" and io[1] == [], "model.iospecs readable after a rejected operation", lambda: io):
        return False
    for what, fn in (("del A.r", lambda: delattr(M.m.A, "r")), ("A.r = value again", lambda: setattr(M.m.A, "r", vals["r"])),
                     ("del X.rr", lambda: delattr(M.m.X, "rr")), ("del m.gr ; m.gr = value", lambda: (delattr(M.m, "gr"), setattr(M.m, "gr", vals["g"])))):
        e = call(fn)
        if not check(e[0] == "ok", "legal follow-up edit after a rejected operation: %s" % what, lambda: e):
            return False
    with notrace():
        sane = True
        try:
            mx.core.mxsys._check_sanity()
            M.m._impl._check_sanity()
        except AssertionError:
            sane = False
    if not check(sane, "self-check after the follow-up edits"):
        return False
    got = M.observe()
    for k in sorted(exp):
        if not check(got[k][0] == "ok" and got[k][1] == exp[k], "value %s correct after the follow-up edits" % k, lambda: (got[k], exp[k])):
            return False
    return True


ALPHA = "a_1.if"


def name_spec(w: str) -> bool:
    """
    pre: len(w) <= 3
    pre: all(c in "a_1.if" for c in w)
    post: _
    """
    from modelx.core.util import is_valid_name
    spec = len(w) > 0 and w[0] in "aif" and all(c in "a_1if" for c in w) and w not in ("if", "as", "is", "in")
    return is_valid_name(w) == spec


@harness
def valid_name(c0: int, c1: int, c2: int, n: int) -> bool:
    """Symbolic string over the alphabet: is_valid_name(w) == (identifier, no leading underscore, not a keyword)."""
    from modelx.core.util import is_valid_name
    n = pick(n, 0, 3)
    w = "".join(ALPHA[pick(c, 0, 5)] for c in (c0, c1, c2)[:n])
    label("name %r" % w)
    spec = len(w) > 0 and w[0] in "aif" and all(ch in "a_1if" for ch in w) and not keyword.iskeyword(w)
    return check(is_valid_name(w) == spec, "is_valid_name(%r)" % w, lambda: (is_valid_name(w), spec))


NB = len(BAD)
QUERIES = [
    Query("rejected", rejected, pre=["0 <= op < %d" % NB],
          partitions=lambda tier, seed: [dict(op=[lo, min(lo + 2, NB - 1)]) for lo in range(0, NB, 3)],
          natives=[dict(r=3, g=4, inp=50, op=o, pre=p) for o in range(NB) for p in (True,)],
          bounds=lambda tier: {"operations": [b[0] for b in BAD], "pre_state": ["nothing computed", "values computed"], "values": "r, gr, input: unbounded symbolic ints"},
          outside=["invalid operations outside the menu", "histories with more than one operation before the rejected one"]),
    Query("valid_name", valid_name, pre=["0 <= c0 < 6", "0 <= c1 < 6", "0 <= c2 < 6", "0 <= n <= 3"],
          partitions=lambda tier, seed: [dict(n=k) for k in range(4)],
          natives=[dict(c0=0, c1=1, c2=2, n=3), dict(c0=4, c1=5, c2=0, n=2), dict(c0=1, c1=0, c2=0, n=2)],
          bounds=lambda tier: {"alphabet": ALPHA, "length": "0..3 (all 259 strings, enumerated by the solver through the index variables)"},
          outside=["names over the full Unicode identifier classes"]),
]
BUDGET = {"quick": 420, "thorough": 1200}
