"""C20 formula capture is faithful and idempotent; rename and doc edits are inert.  Function texts are generated
from a grammar of syntactic shapes (selectors); behaviour is compared with the plain Python function compiled from the
same text for a SYMBOLIC argument x and a symbolic global k (reference value); text goes through ast/tokenize/asttokens,
so the text dimension is an exhaustive enumeration of the menu, not a for-all-texts result."""
from kit import *  # noqa
import os as _os
import sys as _sys
import importlib.util as _ilu
import textwrap as _tw

INDENTS = [0, 4, 8]
DECOS = [[], ["@deco"], ["@deco", "@deco2(1,", "       2)"]]
DOCS = [None, '"""one line doc"""', '"doc ending in a quote \\""', '"""multi\n    line\n    doc\n    """']
COMMENTS = ["none", "leading", "after signature", "last line"]
PARAMS = [("x", ("x",)), ("x, y=2", ("x", "y")), ("x: int, y: int = 3", ("x", "y"))]
BODIES = [
    ("simple", ["return x * 2 + k"]),
    ("nested def", ["def inner(a):", "    return a + k", "return inner(x) * 3"]),
    ("nested lambda", ["g = lambda a: a - k", "return g(x) + 1"]),
    ("nested class", ["class C:", "    v = 4", "    def m(self, a):", "        return a + self.v", "return C().m(x) + k"]),
    ("comprehension", ["t = sum([i * k for i in range(3)])", "return t + x"]),
    ("multi-line expression", ["return (x +", "        k *", "    2)"]),
    ("nested def with a local decorator", ["def scaled(fn):", "    return lambda a: fn(a) * k", "@scaled", "def g(a):", "    return a + 1", "return g(x) + 2"]),
    ("nested class with decorated methods", ["class C:", "    @staticmethod", "    def s(a):", "        return a * 2", "    @property", "    def p(self):", "        return k", "return C.s(x) + C().p"]),
    ("if/else with string literal", ["s = 'def not_a_def(): # \"\"\"'", "if len(s) > 3:", "    return x + k", "return 0"]),
]
ONELINE = "one-line body"
LAMBDAS = [
    ("bare lambda", "lambda x: x * 2 + k", ("x",)),
    ("lambda with default", "lambda x, y=2: x * y + k", ("x", "y")),
    ("assigned lambda", "f = lambda x: x + k", ("x",)),
    ("lambda in a call", "register(lambda x: x - k, 1)", ("x",)),
    ("multi-line lambda", "lambda x: (x +\n        k)", ("x",)),
    ("indented assigned lambda", "        f = lambda x: k - x", ("x",)),
    ("lambda with nested lambda", "lambda x: (lambda a: a + k)(x) * 2", ("x",)),
]


def gen_def(name, indent, deco, doc, comment, params, body, oneline=False):
    """(text given to modelx, plain undecorated text for the oracle)"""
    pad = " " * indent
    sig = "def %s(%s):" % (name, PARAMS[params][0])
    lines = []
    if comment == 1:
        lines.append("# leading comment")
    lines += DECOS[deco]
    if oneline:
        lines.append(sig + " return x * 2 + k")
        plain = [sig + " return x * 2 + k"]
    else:
        lines.append(sig + ("  # after signature" if comment == 2 else ""))
        plain = [sig]
        b = []
        if DOCS[doc] is not None:
            b += DOCS[doc].split("\n")[:1] + [ln[4:] if ln.startswith("    ") else ln for ln in DOCS[doc].split("\n")[1:]]
        b += BODIES[body][1]
        if comment == 3:
            b.append("# last line comment")
        lines += ["    " + ln for ln in b]
        plain += ["    " + ln for ln in b]
    text = "\n".join(pad + ln for ln in lines) + "\n"
    return text, "\n".join(plain) + "\n"


def compile_plain(src, name, k):
    ns = {"k": k}
    exec(compile(src, "<oracle>", "exec"), ns)
    return ns[name]


def _same_behaviour(cells, f, params, x, what):
    a = call(cells, x)
    b = call(f, x)
    if not check(same_outcome(a, b), "cells(x) == function(x) (%s)" % what, lambda: (a, b)):
        return False
    if len(params) > 1:
        a, b = call(cells, x, 5), call(f, x, 5)
        if not check(same_outcome(a, b), "cells(x, 5) == function(x, 5) (%s)" % what, lambda: (a, b)):
            return False
        a, b = call(cells, x, y=7), call(f, x, y=7)
        if not check(same_outcome(a, b), "cells(x, y=7) == function(x, y=7) (%s)" % what, lambda: (a, b)):
            return False
    return True


def _common(S, c, f, params, x, k, is_def, expected_name):
    with notrace():
        src = c.formula.source
        okp = tuple(c.parameters) == tuple(params)
    if not check(okp, "cells.parameters", lambda: (c.parameters, params)):
        return False
    if not _same_behaviour(c, f, params, x, "as created"):
        return False
    # formula.source is a self-contained definition under the cells' name
    with notrace():
        try:
            ns = {"k": 0}
            exec(compile(("_lam = " + src) if not is_def else src, "<source>", "exec"), ns)
            g_ok = ("_lam" in ns) if not is_def else (expected_name in ns)
        except SyntaxError as e:
            g_ok = "SyntaxError: %s" % e
    if not check(g_ok is True, "formula.source compiles stand-alone to a function of the cells' name", lambda: (g_ok, src)):
        return False
    ns["k"] = k
    g = ns["_lam"] if not is_def else ns[expected_name]
    a, b = call(g, x), call(f, x)
    if not check(same_outcome(a, b), "function compiled from formula.source behaves the same", lambda: (a, b)):
        return False
    # idempotence
    with notrace():
        c2 = S.new_cells("again", formula=src, is_cached=False)
        src2 = c2.formula.source
        exp2 = src.replace("def %s(" % expected_name, "def again(", 1) if is_def else src
    if not check(src2 == exp2, "creating a cells from formula.source reproduces it", lambda: (src, src2)):
        return False
    if not _same_behaviour(c2, f, params, x, "re-created from its source"):
        return False
    with notrace():
        c3 = S.new_cells("cached", formula=src)            # cached twin, concrete argument
    a, b = call(c3, 3), call(f, 3)
    return check(same_outcome(a, b), "cached cells from the same source, concrete argument", lambda: (a, b))


@harness
def deftext(x: int, k: int, indent: int, deco: int, doc: int, comment: int, params: int, body: int, edit: int) -> bool:
    indent, deco, doc, comment, params, body, edit = pick(indent, 0, 2), pick(deco, 0, 2), pick(doc, 0, 3), pick(comment, 0, 3), pick(params, 0, 2), \
        pick(body, 0, len(BODIES)), pick(edit, 0, 2)
    oneline = body == len(BODIES)
    if oneline and (doc or comment in (2, 3) or params):
        return True
    label("def indent=%d decorators=%d doc=%d comment=%s params=%r body=%s" % (INDENTS[indent], len(DECOS[deco]), doc, COMMENTS[comment], PARAMS[params][0],
                                                                          ONELINE if oneline else BODIES[body][0]))
    with notrace():
        text, plain = gen_def("f", INDENTS[indent], deco, doc, comment, params, body if not oneline else 0, oneline)
        m = new_model("T")
        S = m.new_space("S")
        S.k = 0
        f = compile_plain(plain, "f", k)
    c = call(S.new_cells, "f", formula=text, is_cached=False)     # uncached: the symbolic argument is not hashed into a cache key
    if not check(c[0] == "ok", "a supported definition was refused", lambda: (c, text)):
        return False
    c = c[1]
    S.k = k
    if not _common(S, c, f, PARAMS[params][1], x, k, True, "f"):
        return False
    if edit == 1:
        label("rename")
        r = call(c.rename, "zz")
        if not check(r[0] == "ok", "rename raised", lambda: r):
            return False
        with notrace():
            text2, plain2 = gen_def("zz", 0, 0, doc, comment, params, body if not oneline else 0, oneline)
            want = mx.core.formula.Formula(text2).source
            got = c.formula.source
        if not check(got == want, "rename changed more than the name", lambda: (got, want)):
            return False
        return _same_behaviour(c, f, PARAMS[params][1], x, "after rename")
    if edit == 2:
        label("set doc")
        r = call(setattr, c, "doc", "new documentation")
        if not check(r[0] == "ok", "replacing the documentation raised", lambda: r):
            return False
        with notrace():
            okdoc = c.doc == "new documentation"
            try:
                compile(c.formula.source, "<doc>", "exec")
                okc = True
            except SyntaxError as e:
                okc = str(e)
        if not check(okdoc, "cells.doc after assignment", lambda: c.doc):
            return False
        if not check(okc is True, "source after doc replacement no longer compiles", lambda: (okc, c.formula.source)):
            return False
        return _same_behaviour(c, f, PARAMS[params][1], x, "after doc replacement")
    return True


_MOD = [0]


@harness
def funcobj(x: int, k: int, deco: int, doc: int, comment: int, body: int, lam: bool) -> bool:
    """Cells created from function / lambda OBJECTS defined in a real module file (inspect.getsource path)."""
    deco, doc, comment, body, lam = pick(deco, 0, 2), pick(doc, 0, 3), pick(comment, 0, 3), pick(body, 0, len(BODIES) - 1), pickb(lam)
    with notrace():
        base = _os.path.join(_os.environ.get("VERIF_SCRATCH", "/tmp"), "c20mod_%d" % _os.getpid())
        _os.makedirs(base, exist_ok=True)
        _MOD[0] += 1
        modname = "c20gen_%d_%d" % (_os.getpid(), _MOD[0])
        if lam:
            lname, ltext, lparams = LAMBDAS[body % 3]
            src = "k = 0\ndef register(fn, n):\n    return fn\n\nobj = %s\n" % (ltext if not ltext.startswith("f = ") else ltext[4:])
            if "register(" in ltext:
                src = "k = 0\ndef register(fn, n):\n    return fn\n\nobj = " + ltext + "\n"
            plain_params = lparams
        else:
            text, plain = gen_def("f", 0, deco, doc, comment, 0, body)
            src = "k = 0\ndef deco(fn):\n    return fn\n\ndef deco2(a, b):\n    return deco\n\n" + text + "\nobj = f\n"
            plain_params = ("x",)
        path = _os.path.join(base, modname + ".py")
        open(path, "w").write(src)
        spec = _ilu.spec_from_file_location(modname, path)
        mod = _ilu.module_from_spec(spec)
        spec.loader.exec_module(mod)
        m = new_model("T")
        S = m.new_space("S")
        S.k = 0
    label("function object: %s" % (("lambda " + LAMBDAS[body % 3][0]) if lam else "def decorators=%d doc=%d comment=%s body=%s" % (len(DECOS[deco]), doc, COMMENTS[comment], BODIES[body][0])))
    c = call(S.new_cells, "f", formula=mod.obj, is_cached=False)
    if not check(c[0] == "ok", "a supported function object was refused", lambda: c):
        return False
    S.k = k
    mod.k = k
    return _common(S, c[1], mod.obj, plain_params, x, k, not lam, "f")


@harness
def lambdatext(x: int, k: int, form: int, edit: int) -> bool:
    form, edit = pick(form, 0, len(LAMBDAS) - 1), pick(edit, 0, 2)
    name, text, params = LAMBDAS[form]
    label("lambda text: %s" % name)
    with notrace():
        m = new_model("T")
        S = m.new_space("S")
        S.k = 0
        inner = text[text.index("lambda"):]
        if name == "lambda in a call":
            inner = "lambda x: x - k"
        f = eval(compile(_tw.dedent(inner), "<oracle>", "eval"), {"k": k})
    c = call(S.new_cells, "f", formula=text, is_cached=False)
    if not check(c[0] == "ok", "a supported lambda text was refused", lambda: (c, text)):
        return False
    c = c[1]
    S.k = k
    if not _common(S, c, f, params, x, k, False, "f"):
        return False
    if edit == 1:
        label("rename")
        with notrace():
            before = c.formula.source
        r = call(c.rename, "zz")
        if not check(r[0] == "ok" and c.formula.source == before, "renaming a lambda cells changed its source", lambda: (r, c.formula.source, before)):
            return False
        return _same_behaviour(c, f, params, x, "after rename")
    if edit == 2:
        label("set doc")
        r = call(setattr, c, "doc", "new documentation")
        if not check(r[0] == "ok" and c.doc == "new documentation", "doc of a lambda cells", lambda: (r, c.doc)):
            return False
        return _same_behaviour(c, f, params, x, "after doc")
    return True


NB = len(BODIES)


def _parts_def(tier, seed):
    if tier == "quick":
        ps = [dict(indent=i, deco=d, comment=0, params=0, edit=0, body=[0, NB]) for i in range(3) for d in range(3)]       # x doc symbolic
        ps += [dict(indent=0, deco=0, doc=dc, params=[0, 2], edit=0, body=b) for dc in (0, 3) for b in (0, 1, 5)]            # x comment symbolic
        ps += [dict(indent=1, deco=1, comment=0, params=0, edit=e, body=[0, NB]) for e in (1, 2)]                             # rename / doc x doc x body
        return ps
    return [dict(indent=i, deco=d, doc=dc, edit=e) for i in range(3) for d in range(3) for dc in range(4) for e in range(3)]


QUERIES = [
    Query("deftext", deftext, pre=["0 <= indent < 3", "0 <= deco < 3", "0 <= doc < 4", "0 <= comment < 4", "0 <= params < 3", "0 <= body <= %d" % NB, "0 <= edit < 3"],
          partitions=_parts_def,
          natives=[dict(x=3, k=4, indent=i, deco=d, doc=dc, comment=cm, params=p, body=b, edit=e) for (i, d, dc, cm, p, b, e) in
                   ((0, 0, 0, 0, 0, 0, 0), (1, 1, 1, 1, 1, 1, 1), (2, 2, 2, 2, 2, 2, 2), (1, 2, 3, 3, 0, 3, 1), (0, 1, 3, 0, 1, 4, 2), (2, 0, 1, 3, 2, 5, 0),
                    (0, 0, 0, 0, 0, NB, 0), (1, 1, 0, 1, 0, NB, 1), (0, 0, 2, 0, 0, 6, 2), (0, 2, 0, 0, 0, 6, 1), (0, 0, 0, 0, 0, 7, 1), (1, 1, 1, 0, 0, 7, 2), (0, 0, 0, 0, 0, 8, 0), (2, 2, 0, 1, 0, 8, 1))],
          bounds=lambda tier: {"indent": INDENTS, "decorators": [0, 1, "2 (second one spanning two lines)"], "docstrings": ["none", "one line", "ending in an escaped quote", "multi-line"],
                               "comments": COMMENTS, "parameters": [p[0] for p in PARAMS], "bodies": [b[0] for b in BODIES] + [ONELINE], "edits": ["none", "rename", "replace doc"],
                               "argument": "x and the global k: unbounded symbolic ints", "combination": "products listed per partition (quick) / full product (thorough)"},
          outside=["arbitrary source text outside the grammar", "async defs, positional-only / keyword-only parameters"]),
    Query("lambdatext", lambdatext, pre=["0 <= form < %d" % len(LAMBDAS), "0 <= edit < 3"],
          partitions=lambda tier, seed: [dict(form=[lo, min(lo + 1, len(LAMBDAS) - 1)]) for lo in range(0, len(LAMBDAS), 2)],
          natives=[dict(x=3, k=4, form=f, edit=e) for f in range(len(LAMBDAS)) for e in (0, 1, 2)],
          bounds=lambda tier: {"lambda_forms": [l[0] for l in LAMBDAS], "edits": ["none", "rename", "set doc"]},
          outside=["several lambdas in one statement"]),
    Query("funcobj", funcobj, pre=["0 <= deco < 3", "0 <= doc < 4", "0 <= comment < 4", "0 <= body < %d" % NB],
          partitions=lambda tier, seed: [dict(lam=False, deco=d, comment=[0, 1], doc=[0, 1] if tier == "quick" else [0, 3]) for d in range(3)] + [dict(lam=True, deco=0, doc=0, comment=0)],
          natives=[dict(x=3, k=4, deco=d, doc=dc, comment=cm, body=b, lam=l) for (d, dc, cm, b, l) in ((0, 0, 0, 0, False), (1, 1, 1, 1, False), (2, 3, 2, 3, False), (0, 0, 0, 0, True), (0, 0, 0, 1, True), (0, 0, 0, 2, True))],
          bounds=lambda tier: {"objects": "def with 0-2 decorators / lambda, defined in a generated module file and passed as objects"},
          outside=["functions without retrievable source"]),
]
BUDGET = {"quick": 420, "thorough": 1200}
