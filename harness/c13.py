"""C13 deletion is complete.  Rich kit; selectors: deletion trigger x whether values were computed before; every
handle taken beforehand (the object, contained objects, derived copies, dynamic instances and their cells) is probed with
a menu of attribute accesses / calls; containers, base lists and the dependency graph are searched for remains;
reference values are symbolic for the re-evaluation part (dependants == fresh model that only saw the edit)."""
from rich import *  # noqa

TRIGGERS = [
    "del S.a",                 # 0 cells
    "del S.Sub",               # 1 child space
    "del m.S",                 # 2 model-level space with everything in it
    "del Base.bf",             # 3 base member removed -> derived copy in S
    "S.remove_bases(Base)",    # 4 base relation removed -> derived members in S
    "P.k = v (ItemSpaces discarded)",   # 5
    "del m.P (with ItemSpaces)",        # 6
    "(unused: m.close() is C19's business)",   # 7
    "del m.Base",              # 8 base space deleted
    "del P[1]",                # 9 one ItemSpace deleted explicitly
    "P.formula changed",       # 10
    "del S.x",                 # 11 reference
    "del m.Q (unreferenced childless parametric space with ItemSpaces)",   # 12
    "del QQ.QC (child of a parametric space)",                  # 13
    "del m.QQ (parametric space with a child space)",           # 14
    "del m.PP (its child space PP.PC2 is the base of QD, QD the base of QD2)",   # 15
    "del m.US (space whose uncached and cached cells another space's value was computed from)",   # 16
    "o_attr_child.clear() then del Sub.z (two values read the reference through an attribute path, one was cleared before)",   # 17
    "o_attr_child.clear() then del Base.bx -> derived S.bx (read by name by several cells)",   # 18
    "del P.PC.pc (cells of a child space of the parametric space; several instances alive)",   # 19
    "del QQ.QC.QG (grandchild space of a parametric space)",   # 20
    "del m.DynB (the base the parameter formula of PB names)",   # 21
    "del DynB.DC (child space of that base)",   # 22
]

PROBES_COMMON = ["name", "fullname", "parent", "model", "doc", "allow_none"]
PROBES_CELLS = PROBES_COMMON + ["formula", "parameters", "is_cached", "call0", "len", "preds0", "clear", "node0"]
PROBES_SPACE = PROBES_COMMON + ["cells", "spaces", "refs", "bases", "formula", "itemspaces", "getattr_any", "dir", "clear_all", "new_cells"]


def _probe(h, kind):
    """Every probe on a dead handle must raise DeletedObjectError.  Returns list of probes that did not."""
    bad = []
    for p in (PROBES_CELLS if kind == "cells" else PROBES_SPACE):
        try:
            if p == "call0":
                h(0) if len(h.parameters) else h()
            elif p == "len":
                len(h)
            elif p == "preds0":
                h.preds(0)
            elif p == "clear":
                h.clear()
            elif p == "node0":
                h.node(0)
            elif p == "getattr_any":
                h.zzz
            elif p == "dir":
                dir(h)
            elif p == "clear_all":
                h.clear_all()
            elif p == "new_cells":
                h.new_cells("qq", formula="lambda: 1")
            else:
                getattr(h, p)
            bad.append((p, "no error"))
        except DeletedObjectError:
            pass
        except Exception as e:
            bad.append((p, type(e).__name__))
    return bad


def _impls(handles):
    return [(n, h._impl) for n, (h, k) in handles.items()]


@harness
def delete(g: int, h: int, bx: int, x: int, y: int, sh: int, z: int, k: int, trig: int, pre: int, v: int) -> bool:
    trig, pre = pick(trig, 0, len(TRIGGERS) - 1), pick(pre, 0, 2)
    vals = dict(g=g, h=h, bx=bx, x=x, y=y, sh=sh, z=z, k=k)
    live, fresh = Rich(vals, "L"), Rich(vals, "F")
    m, S, P = live.m, live.S, live.P
    label("pre=%s" % ("nothing evaluated", "observers evaluated", "ItemSpaces created, no cells evaluated")[pre])
    if pre == 1:
        live.observe()
    with notrace():
        it = P[1] if pre else None
        it2 = P(2) if pre else None
        H = {}           # name -> (handle, kind) expected dead after the trigger
        alive = {}       # handles that must stay alive
        if trig == 0:
            H["S.a"] = (S.a, "cells")
            alive["S.b"] = S.b
        elif trig == 1:
            H["S.Sub"], H["S.Sub.sc"] = (S.Sub, "space"), (S.Sub.sc, "cells")
        elif trig == 2:
            H.update({"S": (S, "space"), "S.a": (S.a, "cells"), "S.Sub": (S.Sub, "space"), "S.Sub.sc": (S.Sub.sc, "cells"),
                      "S.bf(derived)": (S.bf, "cells"), "S.o_cell": (S.o_cell, "cells")})
            alive["Base.bf"] = m.Base.bf
        elif trig == 3:
            H["Base.bf"], H["S.bf(derived)"] = (m.Base.bf, "cells"), (S.bf, "cells")
            alive["S.bo(derived)"] = S.bo
        elif trig == 4:
            H["S.bf(derived)"], H["S.bo(derived)"] = (S.bf, "cells"), (S.bo, "cells")
            alive["Base.bf"] = m.Base.bf
        elif trig == 20:
            Q = live.QQ
            if pre:
                qi = Q[1]
                if pre == 1:
                    qi.QC.QG.qg()
                H.update({"QQ[1].QC.QG": (qi.QC.QG, "space"), "QQ[1].QC.QG.qg": (qi.QC.QG.qg, "cells")})
            H.update({"QQ.QC.QG": (Q.QC.QG, "space"), "QQ.QC.QG.qg": (Q.QC.QG.qg, "cells")})
            alive["QQ.QC"] = Q.QC
        elif trig in (21, 22):
            PB = live.PB
            if pre:
                pi_ = PB[1]
                if pre == 1:
                    pi_.db(), pi_.DC.dcc()
                H.update({"PB[1].DC": (pi_.DC, "space"), "PB[1].DC.dcc": (pi_.DC.dcc, "cells")})
                for j_ in (2, 3):           # several instances built from the same base alive at once
                    H.update({"PB[%d].DC" % j_: (PB[j_].DC, "space"), "PB[%d].DC.dcc" % j_: (PB[j_].DC.dcc, "cells")})
                if trig == 21:
                    H.update({"PB[1]": (pi_, "space"), "PB[1].db": (pi_.db, "cells"), "PB[2]": (PB[2], "space"), "PB[3].db": (PB[3].db, "cells")})
            H.update({"DynB.DC": (live.DynB.DC, "space"), "DynB.DC.dcc": (live.DynB.DC.dcc, "cells")})
            if trig == 21:
                H.update({"DynB": (live.DynB, "space"), "DynB.db": (live.DynB.db, "cells")})
            alive["PB"] = PB
        elif trig == 19:
            it3 = P[3] if pre else None
            H.update({"P.PC.pc": (P.PC.pc, "cells")})
            if it is not None:
                for nm_, inst in (("P[1]", it), ("P(2)", it2), ("P[3]", it3)):
                    H.update({nm_: (inst, "space"), nm_ + ".PC": (inst.PC, "space"), nm_ + ".PC.pc": (inst.PC.pc, "cells"), nm_ + ".h": (inst.h, "cells")})
            alive["P.h"] = P.h
        elif trig in (5, 6, 10):
            if it is not None:
                H.update({"P[1]": (it, "space"), "P[1].h": (it.h, "cells"), "P[1].PC": (it.PC, "space"), "P[1].PC.pc": (it.PC.pc, "cells"),
                          "P(2)": (it2, "space")})
            if trig == 6:
                H.update({"P": (P, "space"), "P.h": (P.h, "cells"), "P.PC": (P.PC, "space"), "P.PC.pc": (P.PC.pc, "cells")})
        elif trig == 7:
            H.update({"S": (S, "space"), "S.a": (S.a, "cells"), "Base": (m.Base, "space"), "P": (P, "space"), "P.h": (P.h, "cells")})
            if it is not None:
                H.update({"P[1]": (it, "space"), "P[1].h": (it.h, "cells")})
        elif trig == 8:
            H.update({"Base": (m.Base, "space"), "Base.bf": (m.Base.bf, "cells"), "S.bf(derived)": (S.bf, "cells"), "S.bo(derived)": (S.bo, "cells")})
            alive["S.a"] = S.a
        elif trig == 9:
            if it is not None:
                H.update({"P[1]": (it, "space"), "P[1].h": (it.h, "cells"), "P[1].PC.pc": (it.PC.pc, "cells")})
                alive["P(2)"] = it2
        elif trig == 12:
            Q = live.Q
            if pre:
                qi = Q[1]
                if pre == 1:
                    qi.qh(2)
                H.update({"Q[1]": (qi, "space"), "Q[1].qh": (qi.qh, "cells")})
            H.update({"Q": (Q, "space"), "Q.qh": (Q.qh, "cells")})
        elif trig in (13, 14):
            Q = live.QQ
            if pre:
                qi = Q[1]
                if pre == 1:
                    qi.qh(2), qi.QC.qc()
                H.update({"QQ[1].QC": (qi.QC, "space"), "QQ[1].QC.qc": (qi.QC.qc, "cells")})
                if trig == 14:
                    H.update({"QQ[1]": (qi, "space"), "QQ[1].qh": (qi.qh, "cells")})
            H.update({"QQ.QC": (Q.QC, "space"), "QQ.QC.qc": (Q.QC.qc, "cells")})
            if trig == 14:
                H.update({"QQ": (Q, "space"), "QQ.qh": (Q.qh, "cells")})
        elif trig == 16:
            H.update({"US": (live.US, "space"), "US.uu": (live.US.uu, "cells"), "US.uc": (live.US.uc, "cells")})
        elif trig == 15:
            QD, QD2 = live.QD, live.QD2
            if pre == 1:
                QD.cf(), QD2.cf()
            H.update({"PP": (live.PP, "space"), "PP.PC2": (live.PP.PC2, "space"), "PP.PC2.cf": (live.PP.PC2.cf, "cells"),
                      "QD.cf(derived)": (QD.cf, "cells"), "QD2.cf(derived)": (QD2.cf, "cells")})
            alive["QD"], alive["QD2"] = QD, QD2
        impls = _impls(H)
    if (trig in (5, 6, 9, 10) and pre == 0) or trig == 7:
        return True            # no instance exists yet / closing a model is not a deletion in the sense of C13 (see C19)
    label(TRIGGERS[trig])
    # ---- the deletion itself, under tracing, on live and (when it is a C02-style edit) on fresh
    if trig == 0:
        r = call(delattr, S, "a"); call(delattr, fresh.S, "a")
    elif trig == 1:
        r = call(delattr, S, "Sub"); call(delattr, fresh.S, "Sub")
    elif trig == 2:
        r = call(delattr, m, "S")
    elif trig == 3:
        r = call(delattr, m.Base, "bf"); call(delattr, fresh.m.Base, "bf")
    elif trig == 4:
        r = call(S.remove_bases, m.Base); call(fresh.S.remove_bases, fresh.m.Base)
    elif trig == 5:
        r = call(setattr, P, "k", v); call(setattr, fresh.P, "k", v)
    elif trig == 6:
        r = call(delattr, m, "P"); call(delattr, fresh.m, "P")
    elif trig == 7:
        r = call(m.close)
    elif trig == 8:
        r = call(delattr, m, "Base"); call(delattr, fresh.m, "Base")
    elif trig == 9:
        r = call(P.__delitem__, 1)
    elif trig == 10:
        r = call(setattr, P, "formula", "lambda n, q=0: None"); call(setattr, fresh.P, "formula", "lambda n, q=0: None")
    elif trig == 11:
        r = call(delattr, S, "x"); call(delattr, fresh.S, "x")
    elif trig == 12:
        r = call(delattr, m, "Q")
    elif trig == 13:
        r = call(delattr, live.QQ, "QC")
    elif trig == 14:
        r = call(delattr, m, "QQ")
    elif trig == 15:
        r = call(delattr, m, "PP")
    elif trig == 16:
        r = call(delattr, m, "US"); call(delattr, fresh.m, "US")
    elif trig == 20:
        r = call(delattr, live.QQ.QC, "QG")
    elif trig == 21:
        r = call(delattr, m, "DynB")
    elif trig == 22:
        r = call(delattr, live.DynB, "DC")
    elif trig == 19:
        r = call(delattr, P.PC, "pc"); call(delattr, fresh.P.PC, "pc")
    elif trig == 17:
        call(S.cells["o_attr_child"].clear)
        r = call(delattr, live.Sub, "z"); call(delattr, fresh.Sub, "z")
    elif trig == 18:
        call(S.cells["o_derived"].clear)
        r = call(delattr, m.Base, "bx"); call(delattr, fresh.m.Base, "bx")
    if not check(r[0] == "ok", "deletion raised", lambda: r):
        return False
    # ---- old handles
    with notrace():
        bad = {n: _probe(hd, kd) for n, (hd, kd) in H.items()}
        bad = {n: b for n, b in bad.items() if b}
    for n in sorted(H):
        if not check(n not in bad, "old handle %s still answers" % n, lambda: bad.get(n)):
            return False
    with notrace():
        still = []
        for n, hd in alive.items():
            try:
                hd.name
            except DeletedObjectError:
                still.append(n)
    if not check(not still, "unrelated handle died", lambda: still):
        return False
    if trig == 7:
        with notrace():
            gone = m not in mx.get_models().values()
        return check(gone, "closed model no longer registered")
    # ---- nothing of the deleted objects remains in the dependency graph or the containers
    with notrace():
        dead = set(id(i) for _, i in impls)
        left = [repr(nd) for nd in m._impl.tracegraph.nodes if id(nd[0]) in dead]
        leftref = [repr(nd) for nd in m._impl.refgraph.nodes if isinstance(nd, tuple) and id(nd[0]) in dead]
        cont = []
        for sp in [s_ for s_ in m._impl._all_spaces.values()] if hasattr(m._impl, "_all_spaces") else []:
            pass
        def walk(space):
            yield space
            for c in space.spaces.values():
                yield from walk(c)
        for top in m.spaces.values():
            for sp in walk(top):
                for c in sp.cells.values():
                    if id(c._impl) in dead:
                        cont.append("cells %s" % c.fullname)
                for b in sp.bases:
                    if id(b._impl) in dead:
                        cont.append("base of %s" % sp.fullname)
                if id(sp._impl) in dead:
                    cont.append("space %s" % sp.fullname)
        sane = True
        try:
            m._impl._check_sanity()
        except AssertionError:
            sane = False
    if trig == 15:
        with notrace():
            leftover = (sorted(live.QD.cells), sorted(live.QD._own_refs), sorted(live.QD2.cells), [b.name for b in live.QD.bases])
        if not check(leftover == ([], [], [], []), "members derived from the deleted space's child remain in its sub spaces", lambda: leftover):
            return False
    if not check(not left, "dependency graph still has nodes of a deleted object", lambda: left):
        return False
    if not check(not leftref, "reference graph still has nodes of a deleted object", lambda: leftref):
        return False
    if not check(not cont, "deleted object still listed in a container / base list", lambda: cont):
        return False
    if not check(sane, "model._check_sanity() after deletion"):
        return False
    # ---- dependants re-evaluate to the values of a model that only saw the deletion
    if trig in (0, 1, 3, 4, 5, 6, 8, 10, 11, 16, 17, 18, 19):
        a, b = live.observe(), fresh.observe()
        for n in OBSERVERS:
            if not check(same_outcome(a[n], b[n]), "dependant " + n, lambda: (a[n], b[n])):
                return False
    return True


_V = dict(g=10, h=20, bx=3, x=1, y=2, sh=30, z=4, k=5)
NT = len(TRIGGERS)

QUERIES = [
    Query("delete", delete, pre=["0 <= trig < %d" % NT, "0 <= pre <= 2"],
          partitions=lambda tier, seed: [dict(trig=t) for t in range(NT)],
          natives=[dict(_V, trig=t, pre=p, v=77) for t in range(NT) for p in (0, 1, 2)],
          bounds=lambda tier: {"triggers": TRIGGERS, "pre_states": 3, "probes_per_cells_handle": PROBES_CELLS, "probes_per_space_handle": PROBES_SPACE,
                               "values": "symbolic ints in the re-evaluation part"},
          outside=["handles to ReferenceProxy objects", "deletion triggered by reload/copy/Excel import", "nested ItemSpaces"]),
]
BUDGET = {"quick": 420, "thorough": 1200}
