"""C19 model registry: unique names, no model dropped, models isolated from each other.  A history of registry
operations chosen by symbolic selectors (operation, target model, name from a pool with colliding and already
suffixed names); every model carries a token reference (unbounded symbolic int) and a cells computed from it.
Oracle: a harness-side list of live tokens."""
from kit import *  # noqa
import os as _os
import shutil as _sh
use_formula_memo()

POOL = ["M", "M_BAK1", "N", "M_BAK2", "2 bad", "_hidden"]      # the last two are invalid names: operations using them must be refused
OPS = ["new_model(name)", "read_model(file, name)", "rename(name)", "rename(name, rename_old=True)", "close", "edit one model", "new_model()", "evaluate"]


def _mk(name, tok):
    m = mx.new_model(name) if name is not None else mx.new_model()
    S = m.new_space("S")
    S.tok = tok
    S.new_cells("f", formula="lambda t: tok * 2 + t")
    return m


def _state_ok(live, what):
    """live: list of [model, token, extra] in creation order."""
    with notrace():
        reg = mx.get_models()
        names_ok = all(k == v.name for k, v in reg.items())
        objs = list(reg.values())
        missing = [i for i, (m, tok, ex) in enumerate(live) if not any(o is m for o in objs)]
        extra = [o.name for o in objs if not any(o is m for m, _, _ in live)]
    if not check(names_ok, "registry keys == current model names (%s)" % what, lambda: {k: v.name for k, v in reg.items()}):
        return False
    if not check(not missing, "an open model was dropped from the registry (%s)" % what, lambda: (missing, list(reg))):
        return False
    if not check(not extra, "registry holds a model nobody opened / a closed model (%s)" % what, lambda: extra):
        return False
    for m, tok, ex in live:
        v = call(m.S.f, 1)
        if not check(v[0] == "ok" and v[1] == tok * 2 + 1 + ex, "value of model computed from its own token (%s)" % what, lambda: v):
            return False
        with notrace():
            okd = sorted(m.spaces) == ["S"] and sorted(m.S.cells) == (["f", "g"] if ex else ["f"]) and \
                m.S.f.formula.source == ("lambda t: tok * 2 + t + g()" if ex else "lambda t: tok * 2 + t") and sorted(m.S._own_refs) == ["tok"]
        if not check(okd, "definitions of a model changed by an operation on another (%s)" % what):
            return False
    return True


@harness
def registry(t0: int, t1: int, t2: int, t3: int, n0: int, o1: int, a1: int, n1: int, o2: int, a2: int, n2: int, o3: int, a3: int, n3: int) -> bool:
    toks = [t1, t2, t3]
    n0 = pick(n0, 0, 3)
    base = _os.path.join(_os.environ.get("VERIF_SCRATCH", "/tmp"), "c19_%d" % _os.getpid())
    try:
        with notrace():
            if not _os.path.exists(_os.path.join(base, "saved", "_system.json")):     # written once per process, only read afterwards
                _sh.rmtree(base, ignore_errors=True)
                _os.makedirs(base)
                saved = _mk("Saved", 7)
                mx.write_model(saved, _os.path.join(base, "saved"))
                saved.close()
            first = _mk(POOL[n0], t0)
        live = [[first, t0, 0]]
        label("start with model %s" % POOL[n0])
        if not _state_ok(live, "initial"):
            return False
        for i, (o, a, n) in enumerate(((o1, a1, n1), (o2, a2, n2), (o3, a3, n3))):
            o = pick(o, -1, len(OPS) - 1)
            if o < 0:
                break
            n = pick(n, 0, 5) if o in (0, 1, 2, 3) else 0
            if o in (2, 3, 4, 5, 7):
                if not live:
                    break
                a = pick(a, 0, 2)
                if a >= len(live):
                    return True
            name = POOL[n]
            label("%s %s %s" % (OPS[o], ("model#%d" % a) if o in (2, 3, 4, 5, 7) else "", name if o in (0, 1, 2, 3) else ""))
            if o == 0:
                r = call(mx.new_model, name)
                if n >= 4:
                    if not check(r[0] == "err", "new_model with an invalid name must be refused", lambda: r):
                        return False
                else:
                    if not check(r[0] == "ok", "new_model raised", lambda: r):
                        return False
                    with notrace():
                        m = r[1]
                        S = m.new_space("S")
                        S.tok = 0
                        S.new_cells("f", formula="lambda t: tok * 2 + t")
                    m.S.tok = toks[i]
                    live.append([m, toks[i], 0])
            elif o == 1:
                r = call(mx.read_model, _os.path.join(base, "saved"), name=name)
                if n >= 4:
                    if not check(r[0] == "err", "read_model under an invalid name must be refused", lambda: r):
                        return False
                else:
                    if not check(r[0] == "ok", "read_model raised", lambda: r):
                        return False
                    r[1].S.tok = toks[i]
                    live.append([r[1], toks[i], 0])
            elif o in (2, 3):
                r = call(live[a][0].rename, name, rename_old=(o == 3))
                if r[0] == "err":
                    label("rename refused: %s" % r[1])
            elif o == 4:
                r = call(live[a][0].close)
                if not check(r[0] == "ok", "close raised", lambda: r):
                    return False
                live.pop(a)
            elif o == 5:
                if live[a][2]:
                    return True
                live[a][0].S.new_cells("g", formula="lambda: 5")
                live[a][0].S.f.formula = "lambda t: tok * 2 + t + g()"
                live[a][2] = 5
            elif o == 6:
                with notrace():
                    m = _mk(None, 0)
                m.S.tok = toks[i]
                live.append([m, toks[i], 0])
            elif o == 7:
                call(live[a][0].S.f, 3)
            with notrace():
                ctx.models = [m for m, _, _ in live]
            if not _state_ok(live, "after step %d" % (i + 1)):
                return False
        return True
    finally:
        pass


NO = len(OPS)
QUERIES = [
    Query("registry", registry,
          pre=["0 <= n0 < 4", "-1 <= o1 < %d" % NO, "-1 <= o2 < %d" % NO, "-1 <= o3 < %d" % NO, "0 <= a1 < 3", "0 <= a2 < 3", "0 <= a3 < 3", "0 <= n1 < 6", "0 <= n2 < 5", "0 <= n3 < 6"],
          partitions=lambda tier, seed: ([dict(n0=0, o1=1, n1=k, o2=b, o3=-1) for k in (0, 1, 4) for b in range(5)] + [dict(n0=1, o1=1, n1=0, o2=b, o3=-1) for b in (0, 2, 3)] +
                                         [dict(n0=0, o1=1, n1=k, o2=3, o3=-1) for k in (2, 3, 5)] + [dict(n0=0, o1=1, n1=0, o2=[5, NO - 1], o3=-1)] +
                                         [dict(n0=0, o1=a, o2=[0, NO - 1], o3=-1) for a in range(NO) if a != 1] + [dict(n0=1, o1=a, o2=[0, 4], o3=-1) for a in (0, 3)] +
                                         [dict(n0=0, o1=0, n1=0, o2=b, n2=0, o3=[2, 4]) for b in (0, 1, 3)]) if tier == "quick" else
          [dict(n0=n, o1=a, o2=b) for n in (0, 1) for a in range(NO) for b in range(NO)],
          natives=[dict(t0=1, t1=2, t2=3, t3=4, n0=0, o1=a, a1=0, n1=na, o2=b, a2=ab, n2=nb, o3=c, a3=ac, n3=nc) for (a, na, b, ab, nb, c, ac, nc) in
                   ((0, 0, 0, 0, 0, 4, 1, 0), (1, 0, 3, 0, 1, 4, 0, 0), (2, 0, 0, 0, 2, -1, 0, 0), (6, 0, 2, 1, 0, 3, 1, 0), (0, 1, 3, 0, 1, 5, 1, 0), (4, 0, 0, 0, 0, 1, 0, 0), (0, 0, 0, 0, 0, 0, 0, 0), (2, 4, 0, 0, 0, 4, 0, 0), (3, 5, 2, 0, 0, -1, 0, 0), (0, 4, 0, 0, 0, -1, 0, 0), (1, 5, 4, 0, 0, -1, 0, 0))] + [dict(t0=1, t1=2, t2=3, t3=4, n0=1, o1=0, a1=0, n1=0, o2=0, a2=0, n2=0, o3=4, a3=1, n3=0), dict(t0=1, t1=2, t2=3, t3=4, n0=3, o1=0, a1=0, n1=0, o2=3, a2=0, n2=0, o3=-1, a3=0, n3=0)],
          bounds=lambda tier: {"name_pool": POOL, "operations": OPS, "history": "2 operations (quick) / 3 (thorough)", "models": "up to 4 open at once", "tokens": "unbounded symbolic ints"},
          outside=["models holding references into each other", "histories longer than 3", "restore_model / pickled models"]),
]
BUDGET = {"quick": 420, "thorough": 1200}
