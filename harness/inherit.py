"""Inheritance kit (DESIGN.md section 3): spaces A,B,C(,D) at model level, ordered base lists, member f (cells) and
r (reference) defined in a subset, an own reference w in every space.  Harness-side table + CPython's C3 are the oracle."""
from kit import *  # noqa
use_formula_memo()

NAMES = ["A", "B", "C", "D", "E"]


def c3(bases, name):
    """MRO of `name` by CPython's own C3: build throw-away classes.  Raises TypeError when no linearisation exists."""
    made = {}

    def mk(n):
        if n not in made:
            made[n] = type(n, tuple(mk(b) for b in bases[n]), {})
        return made[n]
    return [c.__name__ for c in mk(name).__mro__[:-1]]


def fsrc(tag):
    return "lambda: %d + w" % tag


class Inh:
    def __init__(self, n, bases, fdef, rdef, W, tag="H"):
        """bases: {name: [base names in order]}, fdef: {name: int tag} cells definitions, rdef: {name: value} ref definitions,
        W: {name: value} own ref w of every space.  Values may be symbolic (stored only)."""
        self.n = n
        self.names = NAMES[:n]
        self.bases = {k: list(v) for k, v in bases.items()}
        self.fdef = dict(fdef)
        self.rdef = dict(rdef)
        self.W = dict(W)
        with notrace():
            m = self.m = new_model(tag)
            for nm in self.names:
                m.new_space(nm)
            for nm in self.names:
                sp = m.spaces[nm]
                sp.w = W[nm]
                if nm in fdef:
                    sp.new_cells("f", formula=fsrc(fdef[nm]))
                if nm in rdef:
                    sp.r = rdef[nm]
            for nm in self.names:
                for b in self.bases[nm]:
                    m.spaces[nm].add_bases(m.spaces[b])

    def sp(self, nm):
        return self.m.spaces[nm]

    # ---- oracle
    def expected(self, nm):
        """(mro tail, definer of f or None, definer of r or None)"""
        mro = c3(self.bases, nm)
        fd = next((x for x in mro if x in self.fdef), None)
        rd = next((x for x in mro if x in self.rdef), None)
        return mro[1:], fd, rd

    def check_all(self, what):
        for nm in self.names:
            tail, fd, rd = self.expected(nm)
            sp = self.sp(nm)
            with notrace():
                got_bases = [b.name for b in sp.bases]
                has_f = "f" in sp.cells
                fsource = sp.cells["f"].formula.source if has_f else None
                fder = sp.cells["f"]._is_derived() if has_f else None
                has_r = "r" in sp.refs
                rder = sp._get_object("r", as_proxy=True)._impl.is_derived() if has_r else None
                ncells = [c for c in sp.cells]
            if not check(got_bases == tail, "%s.bases == C3 linearisation (%s)" % (nm, what), lambda: (got_bases, tail)):
                return False
            if not check(has_f == (fd is not None), "%s has cells f iff some space in its MRO defines it (%s)" % (nm, what), lambda: (has_f, fd)):
                return False
            if fd is not None:
                if not check(fsource == fsrc(self.fdef[fd]), "%s.f carries the formula of the first definer in MRO (%s)" % (nm, what), lambda: (fsource, fd, self.fdef[fd])):
                    return False
                if not check(fder == (fd != nm), "%s.f derived flag (%s)" % (nm, what), lambda: (fder, fd)):
                    return False
                v = call(sp.cells["f"])
                if not check(v[0] == "ok" and v[1] == self.fdef[fd] + self.W[nm], "%s.f() evaluates with names resolved in the sub space (%s)" % (nm, what), lambda: v):
                    return False
            if not check(ncells == (["f"] if fd is not None else []), "%s has exactly one copy of each member (%s)" % (nm, what), lambda: ncells):
                return False
            if not check(has_r == (rd is not None), "%s has ref r iff some space in its MRO defines it (%s)" % (nm, what), lambda: (has_r, rd)):
                return False
            if rd is not None:
                if not check(rder == (rd != nm), "%s.r derived flag (%s)" % (nm, what), lambda: (rder, rd)):
                    return False
                rv = getattr(sp, "r")
                if not check(rv == self.rdef[rd], "%s.r carries the value of the first definer in MRO (%s)" % (nm, what), lambda: (rv, rd)):
                    return False
        return True


def describe_inh(h):
    """Concrete description used to compare incremental maintenance with derivation from scratch."""
    with notrace():
        out = {}
        for nm in h.names:
            sp = h.sp(nm)
            out[nm] = ([b.name for b in sp.bases], [b.name for b in sp._direct_bases],
                       {c: (sp.cells[c].formula.source, sp.cells[c]._is_derived()) for c in sp.cells},
                       sorted(n for n in sp._own_refs))
        return out
