"""Shared harness infrastructure: per-path context, labels, property assertions, model plumbing.

A harness function is an ordinary Python function whose parameters are the quantified variables.  It builds
models through the public modelx API, applies operations, and returns True iff the property held on this path.
Under CrossHair its parameters are symbolic; under replay/validation they are concrete ints/bools.
"""
import os
import re
import sys
import itertools

sys.path.insert(0, os.path.join(os.path.dirname(os.path.abspath(__file__)), "..", "engine"))
import shim                                    # noqa: E402
from shim import notrace, realize, deep_realize, is_symbolic  # noqa: E402,F401

import modelx as mx                            # noqa: E402
from modelx.core.errors import FormulaError, DeletedObjectError  # noqa: E402,F401


def use_formula_memo():
    with notrace():
        shim.memo_formulas()


class Ctx:
    """State of the current path; reset by the worker before every path."""

    def __init__(self):
        self.reset()
        self.known = []          # [(property, compiled regex, what)] of known findings (suppress)
        self.query = ""
        self.prop = ""

    def reset(self):
        self.labels = []
        self.failure = None      # (observable, detail)
        self.suppressed = []     # known findings met on this path
        self.hits = []           # formula execution log [(k, t)]
        self.models = []


ctx = Ctx()
_model_counter = itertools.count()


def pick(x, lo, hi):
    """Concretise small-range steering data lo <= x <= hi by comparisons: each `x == v` is decided by the solver on the
    spot (infeasible values cost a query, not a path), whereas crosshair's realize() spends a whole dead path on the
    negated branch.  Returns a plain Python int."""
    if not is_symbolic(x):
        return x
    for v in range(lo, hi):
        if x == v:
            return v
    return hi


def pickb(x):
    if not is_symbolic(x):
        return x
    return True if x else False


def label(*parts):
    """Record a concrete decision of this path (selector branch, realised steering value)."""
    with notrace():
        ctx.labels.append(" ".join(str(p) for p in parts))


def sig(observable):
    return " ; ".join(ctx.labels) + " => " + observable


def check(cond, observable, detail=None):
    """Property assertion.  `cond` may be a symbolic bool: the branch below is the solver query.
    Returns True when it holds on this path, or when the failing (history, observable) is a listed known finding."""
    if cond:
        return True
    with notrace():
        s = sig(observable)
        for prop, rx, what in ctx.known:
            if prop == ctx.prop and rx.search(s):
                ctx.suppressed.append(what)
                return True
        if ctx.failure is None:
            ctx.failure = (observable, detail_str(detail), s)
    return False


def detail_str(d):
    if d is None or not shim.NATIVE:
        return ""          # under tracing the values are symbolic; details are produced by the native replay
    try:
        if callable(d):
            d = d()
        return str(d)[:600]
    except Exception as e:  # symbolic repr problems must never mask the verdict
        return "<detail unavailable: %s>" % type(e).__name__


def unexpected(e, where):
    """An exception the property does not allow, raised by modelx."""
    return check(False, "unexpected-exception@" + where, "%s: %s" % (type(e).__name__, str(e)[:300]))


def reraise_control(e):
    """modelx's bare `except:` in _start_exec wraps CrossHair's control-flow BaseExceptions in FormulaError."""
    if isinstance(e, FormulaError):
        orig = mx.get_error()
        if orig is not None and not isinstance(orig, Exception) and not isinstance(orig, Boom):
            raise orig


def call(fn, *a, **k):
    """Call into the model; returns ('ok', value) or ('err', original exception type name, exception)."""
    try:
        return ("ok", fn(*a, **k))
    except Boom as e:           # a BaseException of the harness' own that modelx failed to wrap
        return ("err", "Boom(unwrapped)", e)
    except FormulaError as e:
        reraise_control(e)
        orig = mx.get_error()
        return ("err", type(orig).__name__, orig)
    except Exception as e:
        return ("err", type(e).__name__, e)


def same_outcome(a, b):
    """Equality of two `call` results; values compared with == (a solver query when symbolic)."""
    if a[0] != b[0]:
        return False
    if a[0] == "ok":
        return eq(a[1], b[1])
    return a[1] == b[1]


def eq(x, y):
    if isinstance(x, (tuple, list)) and isinstance(y, (tuple, list)):
        if len(x) != len(y):
            return False
        for p, q in zip(x, y):
            if not eq(p, q):
                return False
        return True
    if isinstance(x, dict) and isinstance(y, dict):
        if set(x) != set(y):
            return False
        for k in x:
            if not eq(x[k], y[k]):
                return False
        return True
    return x == y


def new_model(tag="M"):
    with notrace():
        name = "%s%d" % (tag, next(_model_counter))
        m = mx.new_model(name)
        ctx.models.append(m)
        return m


def close_models():
    with notrace():
        for m in ctx.models:
            try:
                if m._impl is not None and m.name in mx.get_models() and mx.get_models()[m.name] is m:
                    m.close()
            except Exception:
                pass
        # anything a harness registered under another name
        try:
            for m in list(mx.get_models().values()):
                m.close()
        except Exception:
            pass
        ctx.models = []


class Boom(BaseException):
    """An exception that is not an Exception subclass (like KeyboardInterrupt) - raised by generated formulas."""


def fresh_session():
    """Every path is a new session: undo process-global modelx state a previous path may have left."""
    try:
        for m in list(mx.get_models().values()):
            m.close()
    except Exception:
        pass
    mx.set_recalc(False)
    for namer in ("_backupnamer", "_modelnamer"):          # the session-wide counters behind <name>_BAK<k> and Model<k>
        getattr(mx.core.mxsys, namer).reset()
    mx.core.mxsys.callstack.maxdepth = type(mx.core.mxsys.callstack).default_maxdepth
    ex = mx.core.mxsys.executor
    ex.rolledback.clear()
    ex.errorstack = None
    ex.excinfo = None


def hit(k, t):
    """Execution log entry; bound as reference `hit` and called first thing by generated formulas."""
    with notrace():
        ctx.hits.append((k, t))
    return 0


def harness(fn):
    """Decorator: uniform path prologue/epilogue (reset state, close models, convert stray exceptions)."""
    import functools

    @functools.wraps(fn)
    def w(*a, **k):
        with notrace():
            ctx.reset()
            fresh_session()
        try:
            r = fn(*a, **k)
            return r
        except Exception as e:
            import traceback
            with notrace():
                tb = traceback.format_exc()[-1500:]
            return check(False, "harness-exception", "%s: %s\n%s" % (type(e).__name__, str(e)[:300], tb))
        finally:
            close_models()
    w.__wrapped_harness__ = fn
    return w


def executor_idle():
    ex = mx.core.mxsys.executor
    cs = ex.callstack
    return (not ex.is_executing) and len(cs) == 0 and len(cs.idxstack) == 0 and len(ex.refstack) == 0 \
        and cs.counter == 0


class Query:
    """One solver query family.

    fn          harness function (decorated with @harness); all parameters annotated int/bool
    pre         list of python expressions over the parameters (range constraints only)
    partitions  callable(tier, seed) -> list of dicts {param: constant}; each dict is one worker job
    timeout     callable(tier) -> per-partition CPU budget in seconds
    natives     list of argument dicts run natively at import for validation (must return True)
    bounds      callable(tier) -> dict (documentation of the bound, copied to evidence)
    """

    def __init__(self, name, fn, pre=(), partitions=None, timeout=None, natives=(), bounds=None, outside=(),
                 anchors=()):
        self.name = name
        self.fn = fn
        self.pre = list(pre)
        self.partitions = partitions or (lambda tier, seed: [{}])
        self.timeout = timeout or (lambda tier: 240 if tier == "quick" else 1500)
        self.natives = list(natives)
        self.bounds = bounds or (lambda tier: {})
        self.outside = list(outside)
        self.anchors = list(anchors)


def product(**ranges):
    keys = list(ranges)
    return [dict(zip(keys, vals)) for vals in itertools.product(*[ranges[k] for k in keys])]


# =====================================================================================================
# DAG kit (DESIGN.md section 3): space S with N cells c0..c{N-1}; the call structure is data read from
# references p1_k / p2_k / T_k (symbolic), node values v_k, child-space ref Sub.z and model ref g.
#   value(k,t) = v_k + t + z + g + [p1_k>=0] c_{p1_k}(t) + 3*[p2_k>=0] c_{p2_k}(t) + [T_k and t>0] c_k(t-1)
# =====================================================================================================

CALL_SHAPES = 6     # how a callee is invoked inside the formula text (shapes 6, 7: C17 only - clean-up code around the call)


def _callexpr(shape, cands, p, arg):
    f = "(%s,)[%s]" % (", ".join(cands), p)
    if shape == 0:
        return "%s(%s)" % (f, arg)
    if shape == 1:
        return "%s(t=%s)" % (f, arg)
    if shape == 2:      # subscription is only available on the interface (removed from the namespace in 0.25)
        return "_space.cells[(%s,)[%s]][%s]" % (", ".join(repr(c) for c in cands), p, arg)
    if shape == 3:
        return "sum(x(%s) for x in [%s])" % (arg, f)
    if shape == 4:
        return "(lambda fn: fn(%s))(%s)" % (arg, f)
    if shape == 5:
        return "_space.cells[(%s,)[%s]](%s)" % (", ".join(repr(c) for c in cands), p, arg)
    raise ValueError(shape)


def dag_formula(k, shape=0, default=False, fail=None, uncached_read=False, reads_z=True, reads_zz=False):
    """Source text of cells ck.  shape: call spelling; default: `def ck(t=0)`;
    fail: None | 'raise' | 'zerodiv' | 'none' (failure at (F, FT) read from refs)."""
    cands = ["c%d" % j for j in range(k)]
    lines = ["def c%d(t%s):" % (k, "=0" if default else ""), "    hit(%d, t)" % k]
    if fail == "raise":
        lines.append("    if F == %d and FT == t:" % k)
        lines.append("        raise ValueError('boom')")
    elif fail == "base":
        lines.append("    if F == %d and FT == t:" % k)
        lines.append("        raise Boom('not an Exception subclass')")
    elif fail == "assign":      # the formula stores a value for its own element (allowed) and then fails
        lines.append("    if F == %d and FT == t:" % k)
        lines.append("        _space.cells['c%d'][t] = 12345" % k)
        lines.append("        raise ValueError('boom')")
    elif fail == "zerodiv":
        lines.append("    hit(-1, 1 // (0 if (F == %d and FT == t) else 1))" % k)
    lines.append("    r = v%d + t + %s + g%s" % (k, "Sub.z" if reads_z else "0", " + Sub.zz" if reads_zz else ""))
    wrap = shape in (6, 7, 8, 9)
    cshape = 0 if wrap else shape
    site = [0]

    def guarded(stmt):
        """The calling statement, optionally inside try/finally (6) or try/except <non-matching> (7); 8, 9: the clean-up code
        evaluates ANOTHER cells element for the first time while the exception is passing through (finally / except + bare raise)."""
        site[0] += 1
        if shape == 8:
            return ["        try:", "            " + stmt, "        finally:", "            aux(%d + 10 * t + %d)" % (100 * (k + 1), site[0])]
        if shape == 9:
            return ["        try:", "            " + stmt, "        except Exception:", "            aux(%d + 10 * t + %d)" % (100 * (k + 1), site[0]), "            raise"]
        if shape == 6:
            return ["        try:", "            " + stmt, "        finally:", "            hit(-2, t)", "            hit(-3, t)"]
        if shape == 7:
            return ["        try:", "            " + stmt, "        except KeyError:", "            hit(-2, t)", "            r = 0"]
        return ["        " + stmt]
    if k > 0:
        lines.append("    if p1_%d >= 0:" % k)
        lines += guarded("r = r + %s" % _callexpr(cshape, cands, "p1_%d" % k, "t"))
        lines.append("    if p2_%d >= 0:" % k)
        lines += guarded("r = r + 3 * %s" % _callexpr(cshape, cands, "p2_%d" % k, "t"))
    lines.append("    if T%d and t > 0:" % k)
    lines += guarded("r = r + %s" % _callexpr(cshape if cshape != 5 else 0, ["c%d" % k], "0", "t - 1"))
    if fail == "none":
        lines.append("    if F == %d and FT == t:" % k)
        lines.append("        return None")
    lines.append("    return r")
    return "\n".join(lines) + "\n"


class Dag:
    """Concrete construction (under NoTracing) + symbolic parameterisation + independent oracle."""

    def __init__(self, n, shapes=None, defaults=None, fail=None, cached=None, tag="D", zreaders=None, zzreaders=None):
        self.zreaders = list(zreaders) if zreaders is not None else [True] * n      # which cells read Sub.z (attribute path)
        self.zzreaders = list(zzreaders) if zzreaders is not None else [False] * n  # which cells read a second reference Sub.zz
        self.zz = 0
        self.n = n
        self._rp = {}
        self.inputs = {}
        self.cached = list(cached) if cached is not None else [True] * n
        with notrace():
            self.m = new_model(tag)
            m = self.m
            self.S = m.new_space("S")
            self.Sub = self.S.new_space("Sub")
            m.g = 0
            m.hit = hit
            self.Sub.z = 0
            self.Sub.zz = 0
            S = self.S
            if fail:
                S.F = -1
                S.FT = -1
                m.Boom = Boom
            for k in range(n):
                setattr(S, "v%d" % k, 0)
                setattr(S, "T%d" % k, False)
                if k > 0:
                    setattr(S, "p1_%d" % k, -1)
                    setattr(S, "p2_%d" % k, -1)
            S.new_cells("aux", formula="lambda n: n")          # evaluated by the clean-up code of call shapes 8, 9
            self.cells = []
            self.sources = []
            for k in range(n):
                src = dag_formula(k, shape=(shapes[k] if shapes else 0), default=bool(defaults and defaults[k]), fail=fail, reads_z=self.zreaders[k], reads_zz=self.zzreaders[k])
                self.sources.append(src)
                c = S.new_cells("c%d" % k, formula=src)
                if cached is not None and not cached[k]:
                    c.is_cached = False
                self.cells.append(c)

    def bind(self, V, P1, P2, T, z, g, F=None, FT=None):
        """Assign the (symbolic) parameters to the references before any evaluation.  Done under NoTracing: modelx only
        stores the values (a comparison or arithmetic on one would raise CrossHairInternal), 10x cheaper per path."""
        self.V, self.P1, self.P2, self.T, self.z, self.g, self.F, self.FT = list(V), list(P1), list(P2), list(T), z, g, F, FT
        with notrace():
            self._bind(V, P1, P2, T, z, g, F, FT)

    def _bind(self, V, P1, P2, T, z, g, F, FT):
        S = self.S
        self.m.g = g
        self.Sub.z = z
        for k in range(self.n):
            setattr(S, "v%d" % k, V[k])
            setattr(S, "T%d" % k, T[k])
            if k > 0:
                setattr(S, "p1_%d" % k, P1[k])
                setattr(S, "p2_%d" % k, P2[k])
        if F is not None:
            S.F = F
            S.FT = FT

    # ---- oracle: plain recursion over the parameters, never touches modelx.
    # Pointers are realised the first time the oracle reaches a node (call it AFTER modelx evaluated the element: the
    # formula has then already forced the same decisions, so no new path is created here).
    def rp(self, k):
        if k not in self._rp:
            p1 = pick(self.P1[k], -1, k - 1) if k > 0 else -1
            p2 = pick(self.P2[k], -1, k - 1) if k > 0 else -1
            self._rp[k] = (p1, p2, pickb(self.T[k]))
        return self._rp[k]

    def val(self, k, t):
        if (k, t) in self.inputs:
            return self.inputs[(k, t)]
        p1, p2, T = self.rp(k)
        r = self.V[k] + t + (self.z if self.zreaders[k] else 0) + self.g + (self.zz if self.zzreaders[k] else 0)
        if p1 >= 0:
            r = r + self.val(p1, t)
        if p2 >= 0:
            r = r + 3 * self.val(p2, t)
        if T and t > 0:
            r = r + self.val(k, t - 1)
        return r

    def callees(self, k, t):
        """Direct callees of element (k,t) in formula order, duplicates removed."""
        if (k, t) in self.inputs:
            return []
        p1, p2, T = self.rp(k)
        out = []
        if p1 >= 0:
            out.append((p1, t))
        if p2 >= 0 and (p2, t) not in out:
            out.append((p2, t))
        if T and t > 0:
            out.append((k, t - 1))
        return out

    def calls(self, k, t):
        """Calls made by the formula of (k,t), in order, WITH repetitions."""
        if (k, t) in self.inputs:
            return []
        p1, p2, T = self.rp(k)
        out = []
        if p1 >= 0:
            out.append((p1, t))
        if p2 >= 0:
            out.append((p2, t))
        if T and t > 0:
            out.append((k, t - 1))
        return out

    def closure(self, k, t):
        """All elements evaluated by requesting (k,t) (reflexive-transitive callees), as a list without duplicates."""
        seen = []
        stack = [(k, t)]
        while stack:
            x = stack.pop()
            if x in seen:
                continue
            seen.append(x)
            stack.extend(self.callees(*x))
        return seen

    def descendants(self, k, t, universe):
        """Elements of `universe` that (transitively) call (k,t), including (k,t) itself."""
        out = [(k, t)]
        changed = True
        while changed:
            changed = False
            for x in universe:
                if x not in out and any(c in out for c in self.callees(*x)):
                    out.append(x)
                    changed = True
        return out

    def lines(self, k):
        """1-based line numbers inside the source of ck: where it calls p1 / p2 / itself, and where it fails."""
        src = self.sources[k].splitlines()
        out = {}
        for i, ln in enumerate(src, 1):
            if ("[p1_%d]" % k) in ln and "r = r +" in ln:
                out["p1"] = i
            elif ("[p2_%d]" % k) in ln and "r = r +" in ln:
                out["p2"] = i
            elif "r = r +" in ln and "t - 1" in ln:
                out["rec"] = i
            elif "raise ValueError" in ln or "1 // (0 if" in ln or "raise Boom" in ln:
                out["fail"] = i
        return out

    def simulate(self, q, t, kind, F, FT, already=()):
        """Depth-first evaluation in formula order with the failure at element (F,FT).
        Returns (failed, completed elements in completion order, executing chain [(k,t,line)] at the failure)."""
        done = list(already)
        chain = []

        def run(k, tt):
            if ((k, tt) in done and self.cached[k]) or (k, tt) in self.inputs:
                return True
            L = self.lines(k)
            chain.append([k, tt, 0])
            if kind in ("raise", "zerodiv", "base", "assign") and k == F and tt == FT:
                chain[-1][2] = L["fail"]
                return False
            p1, p2, T = self.rp(k)
            steps = []
            if p1 >= 0:
                steps.append(("p1", p1, tt))
            if p2 >= 0:
                steps.append(("p2", p2, tt))
            if T and tt > 0:
                steps.append(("rec", k, tt - 1))
            for tag, kk, t2 in steps:
                chain[-1][2] = L[tag]
                if not run(kk, t2):
                    return False
            if kind == "none" and k == F and tt == FT:
                chain[-1][2] = 0            # the error is raised by modelx after the formula returned
                return False
            chain.pop()
            if self.cached[k] and (k, tt) not in done:
                done.append((k, tt))
            return True

        ok = run(q, t)
        return (not ok, list(done), [tuple(c) for c in chain])

    def held(self):
        """{(k,t)} currently holding a value, read through the public mapping interface (keys are concrete)."""
        with notrace():
            out = set()
            for k, c in enumerate(self.cells):
                for key in dict(c):
                    out.add((k, key[0] if isinstance(key, tuple) else key))
            return out


def dag_pre(n, tmax=None):
    """Range pre-conditions for the pointer parameters p1_k, p2_k (k = 1..n-1)."""
    pre = []
    for k in range(1, n):
        pre.append("-1 <= p1_%d < %d" % (k, k))
        pre.append("-1 <= p2_%d < %d" % (k, k))
    return pre


# =====================================================================================================
# describe(model): public, concrete description of every definition in a model (C04, C11, C14, C19)
# =====================================================================================================
def _refdesc(space, name, proxy):
    from modelx.core.base import Interface
    v = proxy.value
    if isinstance(v, Interface):
        val = ("object", type(v).__name__, _relname(v))
    elif is_symbolic(v):
        val = ("value", "symbolic", "?")
    else:
        try:
            val = ("value", type(v).__name__, repr(v))
        except Exception:
            val = ("value", type(v).__name__, "<unreprable>")
    return (val, proxy.refmode)


def _relname(obj):
    """Dotted name without the model's name."""
    fn = obj.fullname
    return fn.split(".", 1)[1] if "." in fn else ""


def describe_cells(c):
    f = c.formula
    inputs = {}
    try:
        for key in c:
            k = key if isinstance(key, tuple) else (key,)
            try:
                if c.is_input(*k):
                    vv = c(*k)
                    inputs[repr(k)] = "?" if is_symbolic(vv) else repr(vv)
            except Exception:
                pass
    except Exception:
        pass
    return {"source": f.source if f is not None else None, "params": list(c.parameters), "is_cached": c.is_cached, "allow_none": c.allow_none,
            "doc": c.doc, "derived": c._is_derived(), "inputs": inputs}


def describe_space(sp, with_items=True):
    d = {"bases": [_relname(b) for b in sp._direct_bases], "mro": [_relname(b) for b in sp.bases],
         "formula": sp.formula.source if sp.formula is not None else None, "doc": sp.doc, "allow_none": sp.allow_none,
         "cells": {n: describe_cells(c) for n, c in sp.cells.items()},
         "refs": {n: _refdesc(sp, n, sp._get_object(n, as_proxy=True)) for n in sp._own_refs},
         "spaces": {n: describe_space(c, with_items) for n, c in sp.spaces.items()}}
    if with_items and sp.formula is not None:
        items = {}
        for key, it in sp.itemspaces.items():
            ins = {}
            for cn, c in it.cells.items():
                dd = describe_cells(c)["inputs"]
                if dd:
                    ins[cn] = dd
            items[repr(key)] = ins
        d["item_inputs"] = {k: v for k, v in items.items() if v}
    return d


def describe(m, with_items=True):
    """Concrete (call under notrace, or natively).  Does not include the model's name or path."""
    return {"doc": m.doc, "allow_none": m.allow_none,
            "refs": {n: _refdesc(m, n, m._get_object(n, as_proxy=True)) for n in m.refs if n != "__builtins__"},
            "spaces": {n: describe_space(sp, with_items) for n, sp in m.spaces.items()}}


def diff(a, b, path=""):
    """First difference between two descriptions (for messages)."""
    if type(a) != type(b):
        return "%s: %r != %r" % (path, a, b)
    if isinstance(a, dict):
        for k in sorted(set(a) | set(b), key=str):
            if k not in a or k not in b:
                return "%s/%s: only on one side" % (path, k)
            d = diff(a[k], b[k], path + "/" + str(k))
            if d:
                return d
        return None
    if isinstance(a, (list, tuple)):
        if len(a) != len(b):
            return "%s: %r != %r" % (path, a, b)
        for i, (x, y) in enumerate(zip(a, b)):
            d = diff(x, y, "%s[%d]" % (path, i))
            if d:
                return d
        return None
    return None if a == b else "%s: %r != %r" % (path, a, b)
