"""C10 object-valued references rebind relatively or stay absolute as their mode says.  Selectors: reference mode x
placement of the target x nesting depth of the definer x deriver kind (static sub space / ItemSpace / ItemSpace of a sub)
x names of definer and outside space (one is a string prefix of the other) x a follow-up operation (base removed and
re-added, reference re-assigned, write + read).  Oracle: path arithmetic on name tuples in the harness.
Selector-driven: nothing here is value-dependent, the solver's part is the exhaustive case split."""
from kit import *  # noqa
import os as _os
import shutil as _sh
use_formula_memo()

MODES = ["auto", "relative", "absolute"]
PLACES = ["definer itself", "cells of definer", "descendant space", "cells in descendant", "outside space", "cells outside"]
NAMES = [("A", "AB"), ("AB", "A"), ("A", "B")]
FOLLOW = ["none", "remove and re-add base", "re-assign reference", "write and read", "re-assign to an object outside"]


def _get(root, path):
    o = root
    for p in path:
        o = getattr(o, p)
    return o


def _build(dn, on, depth, tag):
    """Definer space named dn (at model level, or inside space T when depth == 2), outside space named on."""
    with notrace():
        m = new_model(tag)
        parent = m if depth == 1 else m.new_space("T")
        # depth 3: definer T.<dn>, deriver at model level with the SAME name; depth 4: deriver T2.T.<dn> (its path ends like the definer's whole path)
        D = parent.new_space(dn, formula="lambda n: None")
        D.new_cells("df", formula="lambda: 1")
        DC = D.new_space("DC")
        DC.new_cells("dcf", formula="lambda: 2")
        O = m.new_space(on)
        O.new_cells("of", formula="lambda: 3")
        subparent = m if depth in (1, 3) else m.new_space("T2")
        if depth == 4:
            subparent = subparent.new_space("T")
        S = subparent.new_space("Sub" if depth <= 2 else dn, bases=D)
        S.formula = "lambda n: None"         # parameters are not inherited
        Q = m.new_space("Q", formula="lambda n: {'base': SubRef}")     # a parametric space whose instances are built from Sub
        Q.SubRef = S
        return m, D, O, S


def _target(D, O, place):
    return [D, D.df, D.DC, D.DC.dcf, O, O.of][place]


def _rel(place):
    return [(), ("df",), ("DC",), ("DC", "dcf"), None, None][place]


def _expect(deriv_root, D, O, place, mode, static):
    """Object the derived reference must denote (None = unspecified by the property)."""
    tgt = _target(D, O, place)
    if mode == "absolute" or place >= 4:
        return tgt
    if static and place in (2, 3):
        return None                       # child spaces are not inherited: the property only speaks of the space and its cells
    return _get(deriv_root, _rel(place))


def _check_bind(where, got, exp, modegot, mode):
    if exp is not None:
        with notrace():
            ok = got is exp
            detail = (getattr(got, "fullname", repr(got)), exp.fullname)
        if not check(ok, "%s denotes the right object" % where, lambda: detail):
            return False
    return check(modegot == mode, "%s keeps its reference mode" % where, lambda: (modegot, mode))


def _observe(m, D, O, S, place, mode, what):
    unspecified = place in (2, 3) and mode != "absolute"     # Sub has no DC: the relative target does not exist there
    # static sub space
    if unspecified:
        derivers = (("D[1]", D),)
    else:
        derivers = (("D[1]", D), ("Sub[1]", S), ("Q[1] (instance of another space built from Sub)", m.Q))
    r = call(lambda: S.r) if not unspecified else ("ok", None)
    if not check(r[0] == "ok", "Sub.r readable (%s)" % what, lambda: r):
        return False
    with notrace():
        md = S._get_object("r", as_proxy=True).refmode
    if not unspecified and not _check_bind("Sub.r (%s)" % what, r[1], _expect(S, D, O, place, mode, True), md, mode):
        return False
    # ItemSpace of the definer, and ItemSpace of the sub space
    for nm, base in derivers:
        it = call(lambda: base[1])
        if not check(it[0] == "ok", "%s can be created (%s)" % (nm, what), lambda: it):
            return False
        rr = call(lambda: it[1].r)
        if not check(rr[0] == "ok", "%s.r readable (%s)" % (nm, what), lambda: rr):
            return False
        exp = _expect(it[1], D, O, place, mode, False)
        md = mode                         # (reference proxies of dynamic spaces carry no mode of their own)
        if not _check_bind("%s.r (%s)" % (nm, what), rr[1], exp, md, mode):
            return False
    # definer itself keeps the original
    with notrace():
        okd = D.r is _target(D, O, place)
    return check(okd, "definer's own reference denotes the original (%s)" % what)


@harness
def rebind(mode: int, place: int, nm: int, depth: int, follow: int) -> bool:
    mode, place, nm, depth, follow = pick(mode, 0, 2), pick(place, 0, 5), pick(nm, 0, 2), pick(depth, 1, 4), pick(follow, 0, 4)
    dn, on = NAMES[nm]
    mode = MODES[mode]
    label("mode=%s target=%s names=(%s,%s) depth=%d" % (mode, PLACES[place], dn, on, depth))
    m, D, O, S = _build(dn, on, depth, "X")
    c = call(D.set_ref, "r", _target(D, O, place), mode)
    if mode == "relative" and place >= 4:
        label("relative reference to an outside object: %s" % ("rejected" if c[0] == "err" else "accepted"))
        if c[0] == "err":
            with notrace():
                clean = "r" not in D.refs and "r" not in S.refs
            return check(clean, "rejected reference left nothing behind")
        it = call(lambda: D[1].r)
        return check(it[0] == "err" or it[1] is _target(D, O, place), "out-of-scope relative reference is refused or stays absolute, never rebound", lambda: it)
    if not check(c[0] == "ok", "reference creation raised", lambda: c):
        return False
    if not _observe(m, D, O, S, place, mode, "after creation"):
        return False
    if follow == 0:
        return True
    label(FOLLOW[follow])
    if follow == 1:
        S.remove_bases(D)
        with notrace():
            gone = "r" not in S.refs
        if not check(gone, "derived reference removed with the base"):
            return False
        S.add_bases(D)
        return _observe(m, D, O, S, place, mode, "after remove/add base")
    if follow == 2:
        place2 = (place + 1) % 4
        D.set_ref("r", _target(D, O, place2), mode)
        return _observe(m, D, O, S, place2, mode, "after re-assignment")
    if follow == 4:
        place2 = 4 + place % 2
        c = call(D.set_ref, "r", _target(D, O, place2), mode)
        if mode == "relative" and c[0] == "err":       # refused (or accepted and then it must stay absolute, as at creation)
            return _observe(m, D, O, S, place, mode, "after the refused re-assignment")
        if not check(c[0] == "ok", "re-assignment raised", lambda: c):
            return False
        return _observe(m, D, O, S, place2, mode, "after re-assignment to an outside object")
    if follow == 3:
        with notrace():
            d = _os.path.join(_os.environ.get("VERIF_SCRATCH", "/tmp"), "c10_%d" % _os.getpid())
            _sh.rmtree(d, ignore_errors=True)
            mx.write_model(m, d)
            m2 = mx.read_model(d, name="X2")
            ctx.models.append(m2)
            _sh.rmtree(d, ignore_errors=True)
            par = m2 if depth == 1 else m2.T
            D2, O2 = getattr(par, dn), getattr(m2, on)
            S2 = {1: lambda: m2.Sub, 2: lambda: m2.T2.Sub, 3: lambda: getattr(m2, dn), 4: lambda: getattr(m2.T2.T, dn)}[depth]()
        return _observe(m2, D2, O2, S2, place, mode, "after write/read")
    return True


HOLDERS = ["child space DC", "grandchild space DC.G"]
HTARGETS = ["the parametric root D", "cells of the root", "the holder's parent chain: DC", "cells of DC", "the holder itself", "outside space", "cells outside"]


@harness
def descendant_holder(mode: int, holder: int, tgt: int, nm: int, follow: int) -> bool:
    """The reference is defined in a child / grandchild space of the parametric space; in an ItemSpace it must denote the
    corresponding object of the dynamic tree (the instance root included), or stay absolute."""
    mode, holder, tgt, nm, follow = pick(mode, 0, 2), pick(holder, 0, 1), pick(tgt, 0, 6), pick(nm, 0, 2), pick(follow, 0, 1)
    dn, on = NAMES[nm]
    mode = MODES[mode]
    label("mode=%s held by %s -> %s names=(%s,%s)" % (mode, HOLDERS[holder], HTARGETS[tgt], dn, on))
    with notrace():
        m = new_model("Y")
        D = m.new_space(dn, formula="lambda n: None")
        D.new_cells("df", formula="lambda: n")
        DC = D.new_space("DC")
        DC.new_cells("dcf", formula="lambda: n + 1")
        G = DC.new_space("G")
        G.new_cells("gf", formula="lambda: n + 2")
        O = m.new_space(on)
        O.new_cells("of", formula="lambda: 3")
        DS = D.new_space("DS", bases=DC)          # a sibling child space DERIVING the holder DC (its cells and references, not its child spaces)
        H = DC if holder == 0 else G
        hpath = ("DC",) if holder == 0 else ("DC", "G")
        targets = [(D, ()), (D.df, ("df",)), (DC, ("DC",)), (DC.dcf, ("DC", "dcf")), (H, hpath), (O, None), (O.of, None)]
        target, rel = targets[tgt]
    c = call(H.set_ref, "r", target, mode)
    if mode == "relative" and c[0] == "err" and holder == 0 and tgt in (0, 1):
        return True                       # out of scope for the deriving sibling DS: refused
    if mode == "relative" and rel is None:
        if c[0] == "err":
            return True
        it = call(lambda: _get(D[1], hpath).r)
        return check(it[0] == "err" or it[1] is target, "out-of-scope relative reference is refused or stays absolute, never rebound", lambda: it)
    if not check(c[0] == "ok", "reference creation raised", lambda: c):
        return False
    for step in range(follow + 1):
        if step == 1:
            label("write and read")
            with notrace():
                d = _os.path.join(_os.environ.get("VERIF_SCRATCH", "/tmp"), "c10h_%d" % _os.getpid())
                _sh.rmtree(d, ignore_errors=True)
                mx.write_model(m, d)
                m2 = mx.read_model(d, name="Y2")
                ctx.models.append(m2)
                _sh.rmtree(d, ignore_errors=True)
                D, O = getattr(m2, dn), getattr(m2, on)
                target = _get(D, rel) if rel is not None else (O if tgt == 5 else O.of)
        for arg in (1, 2):
            it = call(lambda: D[arg])
            if not check(it[0] == "ok", "ItemSpace can be created", lambda: it):
                return False
            rr = call(lambda: _get(it[1], hpath).r)
            if not check(rr[0] == "ok", "reference readable in the ItemSpace", lambda: rr):
                return False
            exp = target if (mode == "absolute" or rel is None) else _get(it[1], rel)
            with notrace():
                ok = rr[1] is exp
                detail = (getattr(rr[1], "fullname", repr(rr[1])), exp.fullname)
            if not check(ok, "reference held by a descendant denotes the corresponding object of the dynamic tree", lambda: detail):
                return False
            if holder == 0 and step == 0:
                # the same reference as DERIVED by the sibling DS: relative to DS where the target is DC or its cells, and - like
                # every reference to an object inside the tree - bound to the corresponding object of the dynamic tree
                dr = call(lambda: it[1].DS.r)
                if mode == "absolute" or rel is None:
                    dexp = target
                elif tgt in (0, 1):
                    dexp = _get(it[1], rel)
                else:
                    dexp = _get(it[1], ("DS",) + tuple(rel[1:]))
                with notrace():
                    okd = dr[0] == "ok" and dr[1] is dexp
                    ddetail = (dr[0], getattr(dr[1], "fullname", repr(dr[1])), dexp.fullname)
                if not check(okd, "the reference as derived by a sibling space inside the ItemSpace denotes the corresponding object of the dynamic tree", lambda: ddetail):
                    return False
            if tgt in (0, 1) and mode != "absolute":       # and it computes with the instance's parameter
                v = call(lambda: (rr[1].df if tgt == 0 else rr[1])())
                if not check(v[0] == "ok" and v[1] == arg, "rebound reference evaluates inside the instance", lambda: v):
                    return False
    return True


@harness
def definer_change(m1: int, m2: int, tgt: int, how: int) -> bool:
    """Chain Z <- A <- B.  Z defines r (mode m1); A overrides it (mode m2, absolute target) and the override is removed again, or
    Z re-assigns r with another mode: A's and B's derived r must afterwards be what derivation from Z alone gives."""
    m1, m2, tgt, how = pick(m1, 0, 2), pick(m2, 0, 2), pick(tgt, 0, 1), pick(how, 0, 2)
    label("Z.r mode=%s target=%s; %s with mode=%s" % (MODES[m1], ("Z.foo", "Z itself")[tgt], ("A overrides then deletes", "Z re-assigns", "Z re-assigns while a sibling sub space Ov overrides r")[how], MODES[m2]))
    with notrace():
        m = new_model("DC")
        Z = m.new_space("Z")
        Z.new_cells("foo", formula="lambda: 1")
        Z.new_cells("bar", formula="lambda: 2")
        Ov = m.new_space("Ov", bases=Z) if how == 2 else None      # created first: it precedes A and B among Z's sub spaces
        A = m.new_space("A", bases=Z)
        B = m.new_space("B", bases=A)
        target = (Z.foo, Z)[tgt]
    c = call(Z.set_ref, "r", target, MODES[m1])
    if not check(c[0] == "ok", "reference creation raised", lambda: c):
        return False
    final_mode = MODES[m1]
    if how == 0:
        c = call(A.set_ref, "r", target, MODES[m2])
        if c[0] == "err":
            return True
        c = call(delattr, A, "r")
        if not check(c[0] == "ok", "deleting the override raised", lambda: c):
            return False
    else:
        if how == 2:
            c = call(Ov.set_ref, "r", Ov.bar, "auto")
            if not check(c[0] == "ok", "overriding in the sibling raised", lambda: c):
                return False
        c = call(Z.set_ref, "r", target, MODES[m2])
        if c[0] == "err":
            return True
        final_mode = MODES[m2]
        if how == 2:
            with notrace():
                keeps = Ov.r is Ov.bar
            if not check(keeps, "the overriding sibling keeps its own reference"):
                return False
    for sp in (A, B):
        rr = call(lambda: sp.r)
        if not check(rr[0] == "ok", "derived reference readable", lambda: rr):
            return False
        exp = target if final_mode == "absolute" else ((sp.foo, sp)[tgt])
        with notrace():
            ok = rr[1] is exp
            md = sp._get_object("r", as_proxy=True).refmode
            detail = (getattr(rr[1], "fullname", repr(rr[1])), exp.fullname, md)
        if not check(ok and md == final_mode, "derived reference in %s follows the mode and target of its (new) nearest definer" % sp.name, lambda: detail):
            return False
    return True


@harness
def override_target(mode: int, depth: int, what: int) -> bool:
    """Base.r -> Base.foo (mode).  Sub(Base) overrides foo and later deletes the override (the derived foo is a NEW object):
    Sub.r, the formulas reading it, GSub(Sub).r and Sub's ItemSpaces must denote the current Sub.foo (or stay absolute)."""
    mode, depth, what = pick(mode, 0, 2), pick(depth, 1, 2), pick(what, 0, 1)
    label("mode=%s chain depth=%d %s" % (MODES[mode], depth, ("override then delete the override", "override only")[what]))
    with notrace():
        m = new_model("OT")
        Base = m.new_space("Base")
        Base.new_cells("foo", formula="lambda: 1")
        Base.new_cells("use_r", formula="lambda: r() + 100")
        Sub = m.new_space("Sub", bases=Base, formula="lambda n: None")
        GSub = m.new_space("GSub", bases=Sub) if depth == 2 else None
    c = call(Base.set_ref, "r", Base.foo, MODES[mode])
    if not check(c[0] == "ok", "reference creation raised", lambda: c):
        return False
    c = call(setattr, Sub.foo, "formula", "lambda: 2")
    if not check(c[0] == "ok", "override raised", lambda: c):
        return False
    expect_val = 2
    if what == 0:
        c = call(delattr, Sub, "foo")
        if not check(c[0] == "ok", "deleting the override raised", lambda: c):
            return False
        expect_val = 1
    for sp in [Sub] + ([GSub] if GSub is not None else []):
        rr = call(lambda: sp.r)
        if not check(rr[0] == "ok", "derived reference readable", lambda: rr):
            return False
        exp = Base.foo if MODES[mode] == "absolute" else sp.foo
        with notrace():
            ok = rr[1] is exp
            detail = (repr(rr[1]), exp.fullname)
        if not check(ok, "%s.r denotes the current %s" % (sp.name, "Base.foo" if MODES[mode] == "absolute" else sp.name + ".foo"), lambda: detail):
            return False
        v = call(sp.use_r)
        want = (1 if MODES[mode] == "absolute" else expect_val) + 100
        if not check(v[0] == "ok" and v[1] == want, "formula reading the reference evaluates through the right cells", lambda: (v, want)):
            return False
    it = call(lambda: Sub[1].r)
    with notrace():
        okit = it[0] == "ok" and (it[1] is Base.foo if MODES[mode] == "absolute" else it[1] is Sub[1].foo)
    return check(okit, "ItemSpace of the sub space binds the reference to its own cells", lambda: it)


QUERIES = [
    Query("rebind", rebind, pre=["0 <= mode < 3", "0 <= place < 6", "0 <= nm < 3", "1 <= depth <= 4", "0 <= follow < 5"],
          partitions=lambda tier, seed: ([dict(mode=mo, nm=n, follow=[0, 2], depth=[1, 2]) for mo in range(3) for n in range(3)] + [dict(mode=mo, nm=2, follow=3, depth=1) for mo in range(3)] +
                                         [dict(mode=mo, nm=2, follow=4, depth=[1, 2]) for mo in range(3)] + [dict(mode=mo, nm=[0, 2], follow=0, depth=[3, 4]) for mo in range(3)])
          if tier == "quick" else [dict(mode=mo, nm=n, follow=f) for mo in range(3) for n in range(3) for f in range(5)],
          natives=[dict(mode=mo, place=p, nm=n, depth=d, follow=f) for (mo, p, n, d, f) in
                   ((0, 0, 2, 1, 0), (0, 1, 0, 1, 1), (0, 5, 0, 1, 0), (0, 4, 1, 2, 2), (1, 1, 2, 2, 3), (1, 4, 2, 1, 0), (2, 0, 0, 1, 1), (2, 3, 1, 2, 3), (0, 3, 2, 1, 3), (0, 2, 0, 2, 0), (1, 3, 1, 1, 2), (0, 0, 2, 3, 0), (0, 1, 0, 4, 0), (1, 1, 2, 3, 3), (0, 1, 2, 1, 4), (2, 0, 2, 1, 4), (1, 1, 2, 2, 4), (0, 0, 1, 4, 2))],
          bounds=lambda tier: {"modes": MODES, "placements": PLACES, "names": NAMES, "definer_depth": [1, 2, "2 with a same-named deriver at model level", "2 with the deriver's path ending like the definer's"], "derivers": ["static sub space", "ItemSpace of definer", "ItemSpace of the sub space", "ItemSpace of another parametric space whose formula returns the sub space as base"],
                               "follow_up": FOLLOW},
          outside=["descendant targets under static derivation (child spaces are not inherited; unspecified)", "ItemSpaces nested in ItemSpaces", "more than one follow-up operation"]),
]
QUERIES.append(
    Query("descendant_holder", descendant_holder, pre=["0 <= mode < 3", "0 <= holder < 2", "0 <= tgt < 7", "0 <= nm < 3", "0 <= follow < 2"],
          partitions=lambda tier, seed: [dict(mode=mo, holder=h, follow=0 if tier == "quick" else [0, 1], nm=2 if tier == "quick" else [0, 2]) for mo in range(3) for h in range(2)] +
          [dict(mode=0, holder=0, follow=1, nm=[0, 1])],
          natives=[dict(mode=mo, holder=h, tgt=t, nm=n, follow=f) for (mo, h, t, n, f) in ((0, 0, 0, 2, 0), (0, 1, 0, 0, 1), (1, 0, 1, 2, 0), (2, 1, 4, 1, 0), (0, 0, 5, 0, 0), (1, 1, 3, 2, 1), (0, 1, 4, 2, 0))],
          bounds=lambda tier: {"holders": HOLDERS, "targets": HTARGETS, "modes": MODES, "instances": "D[1], D[2]", "follow_up": ["none", "write and read"]},
          outside=["static derivation of references held by child spaces (child spaces are not inherited)"]))
QUERIES.append(
    Query("definer_change", definer_change, pre=["0 <= m1 < 3", "0 <= m2 < 3", "0 <= tgt < 2", "0 <= how < 3"],
          partitions=lambda tier, seed: [dict(how=h) for h in (0, 1, 2)],
          natives=[dict(m1=a, m2=b, tgt=t, how=h) for (a, b, t, h) in ((0, 2, 0, 0), (2, 0, 1, 0), (0, 2, 0, 1), (1, 2, 1, 1), (2, 1, 0, 1), (0, 0, 1, 0), (0, 2, 0, 2), (2, 0, 1, 2), (0, 0, 0, 2))],
          bounds=lambda tier: {"chain": "Z <- A <- B", "modes": MODES, "targets": ["cells of the definer", "the definer"], "change": ["override in A then delete it", "re-assignment in Z with another mode", "the same while a sibling sub space created earlier overrides the reference"]},
          outside=["deeper chains"]))
QUERIES.append(
    Query("override_target", override_target, pre=["0 <= mode < 3", "1 <= depth <= 2", "0 <= what <= 1"],
          partitions=lambda tier, seed: [dict(what=w_) for w_ in (0, 1)],
          natives=[dict(mode=mo, depth=d_, what=w_) for mo in range(3) for (d_, w_) in ((1, 0), (2, 1), (2, 0))],
          bounds=lambda tier: {"modes": MODES, "chain": "Base <- Sub (<- GSub)", "history": "override the target cells in Sub, [delete the override]"},
          outside=[]))
BUDGET = {"quick": 420, "thorough": 1200}
