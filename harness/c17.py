"""C17 the error traceback is exactly the executing chain.  DAG kit with symbolic pointers/values and a symbolic
failure position; selectors: exception kind, call spelling inside the formulas (plain, keyword, generator expression,
nested lambda), cached/uncached mask, and the history before the failing request (nothing / an earlier request that may
fail / a failure caught by a formula / a success).  Oracle: depth-first simulation of the executing chain, line numbers
known to the text generator."""
from kit import *  # noqa
use_formula_memo()

N = 3
KINDS = ["raise", "zerodiv", "none"]
ERR = {"raise": "ValueError", "zerodiv": "ZeroDivisionError", "none": "NoneReturnedError"}
SHAPES = [0, 1, 3, 4, 6, 7, 8, 9]
import os as _os
MASKS = [0, 1, 2, 4, 6, 7, 3, 5]      # bit k set = cells k uncached; quick uses the first four
MMAX = 3 if _os.environ.get("VERIF_TIER", "quick") == "quick" else 7
PREFIX = ["nothing", "earlier request", "failure handled inside a formula", "successful request"]


def _tb_ok(d, chain, what):
    with notrace():
        tb = mx.get_traceback()
        got = [(d.cells.index(n.obj) if n.obj in d.cells else repr(n.obj), n.args[0] if len(n.args) == 1 else n.args, ln) for n, ln in tb]
        ok = got == [tuple(c) for c in chain]
        tb3 = mx.get_traceback(show_locals=True)
        ok3 = len(tb3) == len(tb) and all(len(x) == 3 for x in tb3)
    if not check(ok, "get_traceback() == executing chain (%s)" % what, lambda: (got, chain)):
        return False
    return check(ok3, "get_traceback(show_locals=True) has the same frames (%s)" % what)


@harness
def traceback(v0: int, v1: int, v2: int, z: int, g: int, p1_1: int, p2_1: int, p1_2: int, p2_2: int, T2: bool,
              kind: int, sh: int, mask: int, prefix: int, F: int, FT: int, qa: int, q: int, t: int) -> bool:
    kind, sh, mask, prefix, F, FT, q, t = pick(kind, 0, 2), pick(sh, 0, 7), pick(mask, 0, MMAX), pick(prefix, 0, 3), \
        pick(F, 0, 2), pick(FT, 0, 1), pick(q, 0, 2), pick(t, 0, 1)
    kind = KINDS[kind]
    mask = MASKS[mask]
    cached = [not (mask >> k) & 1 for k in range(N)]
    label("kind=%s shape=%d uncached=%s prefix=%s" % (kind, SHAPES[sh], [k for k in range(N) if not cached[k]], PREFIX[prefix]))
    if kind == "none" and not cached[F]:
        return True            # an uncached cells returning None is not refused by modelx (nothing is stored): outside this check
    d = Dag(N, shapes=[SHAPES[sh]] * N, fail=kind, cached=cached)
    with notrace():
        d.S.new_cells("catch", formula="def catch(t):\n    try:\n        return c%d(t)\n    except Exception:\n        return -1\n" % (N - 1))
    d.bind([v0, v1, v2], [-1, p1_1, p1_2], [-1, p2_1, p2_2], [False, False, T2], z, g, F=F, FT=FT)
    done = []
    if prefix == 1:
        qa = pick(qa, 0, 2)
        label("earlier c%d(1)" % qa)
        call(d.cells[qa], 1)
        failed, done, chain = d.simulate(qa, 1, kind, F, FT)
    elif prefix == 2:
        label("catch(1)")
        r = call(d.S.cells["catch"], 1)
        failed, done, chain = d.simulate(N - 1, 1, kind, F, FT)
        if not check(r[0] == "ok" and (r[1] == -1 if failed else r[1] == d.val(N - 1, 1)), "formula catching the failure returns", lambda: r):
            return False
    elif prefix == 3:
        call(d.cells[0], 0 if not (F == 0 and FT == 0) else 1)
        failed, done, chain = d.simulate(0, 0 if not (F == 0 and FT == 0) else 1, kind, F, FT)
    label("request c%d(%d)" % (q, t))
    r = call(d.cells[q], t)
    failed, done, chain = d.simulate(q, t, kind, F, FT, already=done)
    if failed:
        label("fails at c%d(%d) depth %d" % (F, FT, len(chain)))
        if not check(r[0] == "err" and r[1] == ERR[kind], "failing request raises", lambda: r):
            return False
        with notrace():
            okerr = mx.get_error() is r[2]
        if not check(okerr, "get_error() is the exception of the most recent failure"):
            return False
        return _tb_ok(d, chain, "after failure")
    if not check(r[0] == "ok" and r[1] == d.val(q, t), "non-failing request value", lambda: r):
        return False
    with notrace():
        okclean = mx.get_traceback() == [] and mx.get_error() is None
    return check(okclean, "after a successful request get_traceback() is empty and get_error() is None")


_NAT = dict(v0=1, v1=2, v2=3, z=4, g=5, p1_1=0, p2_1=-1, p1_2=1, p2_2=0, T2=True)


_CHAIN = dict(p1_1=0, p2_1=-1, p1_2=1, p2_2=0, T2=True)


def _parts(tier, seed):
    if tier == "quick":
        # A: every DAG shape x failure position, plain selectors; B: every selector combination on the chain DAG
        ps = product(kind=[0], sh=[0], mask=[0], prefix=[0, 2], q=[2], t=[1], F=[0, 1, 2], FT=[0, 1])
        ps += [dict(p, **_CHAIN) for p in product(kind=[0, 1, 2], sh=[0, 1, 2, 3, 4, 5, 6, 7], q=[2], t=[1], qa=[1])]
        return ps
    ps = product(kind=[0, 1, 2], sh=[0, 3, 4, 5, 6, 7], mask=[0, 2], prefix=[0, 1, 2, 3], q=[2], t=[1], F=[0, 1, 2], FT=[0, 1])
    ps += [dict(p, **_CHAIN) for p in product(kind=[0, 1, 2], sh=[0, 1, 2, 3, 4, 5, 6, 7], prefix=[0, 1, 2, 3], q=[2, 1], qa=[0, 1, 2])]
    return ps


QUERIES = [
    Query("traceback", traceback,
          pre=dag_pre(N) + ["0 <= kind < 3", "0 <= sh < 8", "0 <= mask <= %d" % MMAX, "0 <= prefix < 4", "0 <= F < 3", "0 <= FT <= 1", "0 <= qa < 3",
                            "0 <= q < 3", "0 <= t <= 1"],
          partitions=_parts,
          natives=[dict(_NAT, kind=k, sh=s, mask=m, prefix=p, F=f, FT=ft, qa=1, q=2, t=1)
                   for (k, s, m, p, f, ft) in ((0, 0, 0, 0, 0, 0), (1, 1, 0, 1, 1, 1), (2, 2, 0, 3, 0, 1), (0, 3, 2, 0, 0, 0), (0, 0, 0, 3, 2, 0),
                                              (2, 0, 3, 1, 1, 0), (0, 0, 0, 2, 0, 0), (0, 4, 0, 0, 0, 0), (1, 5, 0, 0, 0, 1), (0, 4, 0, 2, 1, 0), (2, 5, 0, 1, 0, 0), (0, 6, 0, 0, 0, 0), (2, 7, 0, 0, 0, 1), (1, 6, 0, 2, 1, 0), (0, 7, 2, 0, 0, 0))],
          bounds=lambda tier: {"cells": N, "t_max": 1, "kinds": KINDS, "call_shapes": ["f(t)", "f(t=t)", "genexpr", "nested lambda", "call inside try/finally", "call inside try/except <non-matching>", "try/finally whose clean-up evaluates another cells", "except Exception: evaluate another cells; raise"],
                               "uncached_masks": "subset per tier", "history_prefix": PREFIX, "failure_position": "every (cells,t)", "dag": "pointers symbolic"},
          outside=["None returned by an uncached cells (not rejected by modelx, see C09 notes)", "chains through ItemSpaces", "more than one earlier failure", "N > 3"]),
]
BUDGET = {"quick": 400, "thorough": 1200}
