"""C02 no stale value survives any edit.  Rich kit: all reference values and edit operands are unbounded symbolic
ints; the history is  [evaluate all observers]? ; edit e1(v1) ; [evaluate all observers]? ; edit e2(v2) ; observe.
Oracle (the property's own): a second, freshly built model to which only the edits are applied, observed once."""
from rich import *  # noqa


def _history(vals, hist, tag_live="L", tag_fresh="F"):
    """hist: list of ('eval',) / ('edit', e, v)."""
    live = Rich(vals, tag_live)
    fresh = Rich(vals, tag_fresh)
    for step in hist:
        if step[0] == "eval":
            label("eval all")
            live.observe()
        else:
            _, e, v = step
            label("edit[%d] %s" % (e, EDITS[e][0]))
            r1 = apply_edit(live, e, v)
            r2 = apply_edit(fresh, e, v)
            if not check(r1[0] == r2[0] and (r1[0] == "ok" or r1[1] == r2[1]), "edit accepted/rejected alike on both models", lambda: (r1, r2)):
                return False
    a = live.observe()
    b = fresh.observe()
    for n in OBSERVERS:
        if not check(same_outcome(a[n], b[n]), n, lambda: (a[n], b[n])):
            return False
    return True


@harness
def single(g: int, h: int, bx: int, x: int, y: int, sh: int, z: int, k: int, e1: int, v1: int, pre: bool) -> bool:
    e1, pre = pick(e1, 0, len(EDITS) - 1), pickb(pre)
    vals = dict(g=g, h=h, bx=bx, x=x, y=y, sh=sh, z=z, k=k)
    return _history(vals, ([("eval",)] if pre else []) + [("edit", e1, v1)])


@harness
def pair(g: int, h: int, bx: int, x: int, y: int, sh: int, z: int, k: int, i1: int, v1: int, i2: int, v2: int, pre: bool, mid: bool) -> bool:
    """i1, i2 index ORDER (the invalidation-critical edits first)."""
    e1, e2, pre, mid = ORDER[pick(i1, 0, len(EDITS) - 1)], ORDER[pick(i2, 0, len(EDITS) - 1)], pickb(pre), pickb(mid)
    vals = dict(g=g, h=h, bx=bx, x=x, y=y, sh=sh, z=z, k=k)
    return _history(vals, ([("eval",)] if pre else []) + [("edit", e1, v1)] + ([("eval",)] if mid else []) + [("edit", e2, v2)])


T1 = [7, 8, 9, 11]          # value edits of S.a / S.b
T2 = [12, 13, 15, 18, 28, 27, 39]  # formula / rename / cache-flag edits
T3 = [0, 1, 2, 29, 4, 24, 36]    # reference changes


@harness
def triple(g: int, h: int, bx: int, x: int, y: int, sh: int, z: int, k: int, i1: int, v1: int, i2: int, i3: int, v3: int, ev: int) -> bool:
    """value edit ; definition edit ; reference change, with evaluations in between (ev: bit mask of the three gaps)."""
    i1, i2, i3, ev = pick(i1, 0, len(T1) - 1), pick(i2, 0, len(T2) - 1), pick(i3, 0, len(T3) - 1), pick(ev, 0, 7)
    vals = dict(g=g, h=h, bx=bx, x=x, y=y, sh=sh, z=z, k=k)
    hist = []
    for j, (e, v) in enumerate(((T1[i1], v1), (T2[i2], 0), (T3[i3], v3))):
        if (ev >> j) & 1:
            hist.append(("eval",))
        hist.append(("edit", e, v))
    return _history(vals, hist)


_V = dict(g=10, h=20, bx=3, x=1, y=2, sh=30, z=4, k=5)
NE = len(EDITS)
ORDER = CRITICAL + [e for e in range(NE) if e not in CRITICAL]


def _parts_single(tier, seed):
    return [dict(e1=[lo, min(lo + 2, NE - 1)]) for lo in range(0, NE, 3)]


def _parts_pair(tier, seed):
    if tier == "quick":
        return [dict(i1=a, i2=[0, 9], pre=True) for a in range(10)]
    return [dict(i1=a, i2=[lo, min(lo + 5, NE - 1)]) for a in range(NE) for lo in range(0, NE, 6)]


QUERIES = [
    Query("single", single, pre=["0 <= e1 < %d" % NE], partitions=_parts_single,
          natives=[dict(_V, e1=e, v1=77, pre=True) for e in range(NE)],
          bounds=lambda tier: {"edits": [e[0] for e in EDITS], "observers": OBSERVERS, "history": "[eval all]? ; edit(v) ; observe all",
                               "values": "g,h,bx,x,y,sh,z,k and the edit operand are unbounded symbolic ints"},
          outside=["edits outside the menu (Excel/pandas import, reload, copy)", "non-int values", "histories longer than 2 edits"]),
    Query("pair", pair, pre=["0 <= i1 < %d" % NE, "0 <= i2 < %d" % NE], partitions=_parts_pair,
          natives=[dict(_V, i1=ORDER.index(a), v1=77, i2=ORDER.index(b), v2=88, pre=True, mid=True) for (a, b) in ((0, 7), (7, 0), (12, 9), (14, 13), (23, 1), (3, 2), (20, 0), (19, 1), (17, 12), (29, 30))],
          bounds=lambda tier: {"pairs": "ordered pairs over %s" % ("the 10 invalidation-critical edits, pre-evaluated" if tier == "quick" else "all edits, pre x mid evaluation symbolic"),
                               "history": "[eval]? ; e1(v1) ; [eval]? ; e2(v2) ; observe all"},
          outside=["triples of edits"]),
]
QUERIES.append(
    Query("triple", triple, pre=["0 <= i1 < %d" % len(T1), "0 <= i2 < %d" % len(T2), "0 <= i3 < %d" % len(T3), "0 <= ev < 8"],
          partitions=lambda tier, seed: [dict(i1=a, i2=b, ev=7 if tier == "quick" else [0, 7]) for a in range(len(T1)) for b in range(len(T2))],
          natives=[dict(_V, i1=a, v1=77, i2=b, i3=c, v3=88, ev=7) for (a, b, c) in ((0, 0, 0), (1, 3, 1), (2, 1, 3), (3, 2, 2), (0, 4, 0), (1, 5, 4), (0, 6, 6), (2, 6, 0))],
          bounds=lambda tier: {"history": "[eval] ; value edit ; [eval] ; definition edit ; [eval] ; reference change ; observe", "value_edits": [EDITS[e][0] for e in T1],
                               "definition_edits": [EDITS[e][0] for e in T2], "reference_changes": [EDITS[e][0] for e in T3], "evaluations": "all three gaps (quick) / every subset (thorough)"},
          outside=["triples outside the three families"]))
BUDGET = {"quick": 420, "thorough": 1200}
