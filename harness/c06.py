"""C06 a value edit discards exactly its dependents; inputs persist.  DAG kit with symbolic values/pointers; the
edited element, the edit kind, the assigned value (unbounded int) and the recalc option are symbolic.  Oracle:
reverse reachability computed by the harness from the pointers + value recursion with input overrides."""
from kit import *  # noqa
use_formula_memo()
import os as _os

N = 3
TMAX = 1
EDITS = ["assign", "clear_at", "del_item", "clear_calculated", "clear_all"]


def _apply_edit(d, ek, ke, te, w):
    c = d.cells[ke]
    label("edit %s c%d(%d)" % (EDITS[ek], ke, te))
    if ek == 0:
        return call(c.__setitem__, te, w)
    if ek == 1:
        return call(c.clear_at, te)
    if ek == 2:
        return call(c.clear_at, t=te)
    if ek == 3:
        return call(c.clear)
    if ek == 4:
        return call(c.clear_all)
    raise ValueError(ek)


ZSEL = [("every cells reads Sub.z", None, None), ("c0 reads Sub.z, c2 reads Sub.zz", [True, False, False], [False, False, True]),
        ("c1 reads Sub.z, c2 reads Sub.zz", [False, True, False], [False, False, True])]


def _body(V, P1, P2, T, z, g, q1, t1, ke, te, ek, w, recalc, second, zsel=0, pre_ref=False, zz=0, umask=0):
    cached = [not (umask >> i) & 1 for i in range(N)]
    if not cached[ke]:
        return True                     # only elements of cached cells can be assigned / cleared
    if umask:
        label("uncached=%s" % [i for i in range(N) if not cached[i]])
    d = Dag(N, cached=cached, zreaders=ZSEL[zsel][1], zzreaders=ZSEL[zsel][2])
    d.bind(V, P1, P2, T, z, g)
    if zsel:
        label(ZSEL[zsel][0])
        d.Sub.zz = zz
        d.zz = zz
    label("eval c%d(%d)" % (q1, t1))
    r = call(d.cells[q1], t1)
    if r[0] != "ok":
        return check(False, "initial request raised", r)
    if not check(r[1] == d.val(q1, t1), "initial value"):
        return False
    with notrace():
        before = d.held()
        universe = d.closure(q1, t1)
        ok0 = before == set(x for x in universe if cached[x[0]])          # uncached cells hold nothing
    if not check(ok0, "held == closure before edit", lambda: (before, universe)):
        return False
    if pre_ref:
        # a reference change BEFORE the value edit: everything computed from Sub.z is discarded, the rest stays
        label("Sub.z re-assigned first")
        d.Sub.z = z + 1
        d.z = z + 1
        with notrace():
            universe0 = list(universe)
        gone0 = set()
        for x in universe0:
            if any(d.zreaders[c[0]] for c in d.closure(*x)):
                gone0.add(x)
        with notrace():
            before = d.held()
            okpre = before == set(universe0) - gone0
        if not check(okpre, "reference change discards exactly the values computed from it", lambda: (sorted(before), sorted(set(universe0) - gone0))):
            return False
    if recalc:
        mx.set_recalc(True)
        label("recalc on")
    hits0 = len(ctx.hits)
    e = _apply_edit(d, ek, ke, te, w)
    if e[0] != "ok":
        return check(False, "edit raised", e)
    mx.set_recalc(False)
    # ---- expected held set
    with notrace():
        if ek in (0, 1, 2):
            gone = set(d.descendants(ke, te, universe)) if (ke, te) in before else set()
        else:
            gone = set()
            for x in before:
                if x[0] == ke and x not in d.inputs:
                    gone |= set(d.descendants(x[0], x[1], universe))
        gone = gone & before
        expect = before - gone
        if ek == 0:
            d.inputs[(ke, te)] = w
            expect = expect | {(ke, te)}
            if recalc:
                expect = expect | gone      # dependents recomputed at once
        after = d.held()
        ok1 = after == expect
    if not check(ok1, "held after edit == held before - dependents(edited)", lambda: (sorted(before), sorted(after), sorted(expect))):
        return False
    if ek == 0 and recalc:
        with notrace():
            reran = sorted(ctx.hits[hits0:])
            ok = reran == sorted(gone - {(ke, te)})
        if not check(ok, "recalc re-ran exactly the discarded dependents", lambda: (reran, sorted(gone))):
            return False
    elif not check(len(ctx.hits) == hits0, "edit without recalc ran a formula"):
        return False
    # ---- every retained element is served without its formula running and has the right value
    hits1 = len(ctx.hits)
    for (k, t) in sorted(expect):
        rr = call(d.cells[k], t)
        if not check(rr[0] == "ok" and rr[1] == d.val(k, t), "retained value c%d(%d)" % (k, t), lambda: (rr, d.val(k, t))):
            return False
    if not check(len(ctx.hits) == hits1, "retained element re-ran its formula", lambda: ctx.hits[hits1:]):
        return False
    if ek == 0:
        with notrace():
            isin = d.cells[ke].is_input(te)
        if not check(isin, "assigned element is input"):
            return False
    # ---- lazy recomputation gives the oracle values (with the input override)
    rr = call(d.cells[q1], t1)
    if not check(rr[0] == "ok" and rr[1] == d.val(q1, t1), "value after edit", lambda: (rr, d.val(q1, t1))):
        return False
    if ek == 0 and second >= 0:
        # inputs survive clear(), an edit elsewhere and a reference change; calculated values do not survive the ref change
        label("second %d" % second)
        if second == 0:
            d.cells[ke].clear()
        elif second == 1:
            d.cells[(ke + 1) % N][0] = 5
            d.inputs[((ke + 1) % N, 0)] = 5
        elif second == 2:
            d.m.g = g + 1
            d.g = g + 1
        elif second == 3:
            d.Sub.z = d.z + 1
            d.z = d.z + 1
        elif second == 4:
            d.Sub.zz = zz + 1
            d.zz = zz + 1
        with notrace():
            isin = d.cells[ke].is_input(te) if (ke, te) in d.held() else False
        if not check(isin, "input lost by later operation"):
            return False
        rr = call(d.cells[ke], te)
        if not check(rr[0] == "ok" and rr[1] == w, "input value lost", lambda: (rr, w)):
            return False
        rr = call(d.cells[q1], t1)
        if not check(rr[0] == "ok" and rr[1] == d.val(q1, t1), "value after second operation", lambda: (rr, d.val(q1, t1))):
            return False
    return True


@harness
def edit(v0: int, v1: int, v2: int, z: int, g: int, p1_1: int, p2_1: int, p1_2: int, p2_2: int,
         T0: bool, T1: bool, T2: bool, q1: int, t1: int, ke: int, te: int, ek: int, w: int, recalc: bool, second: int,
         zsel: int, pre_ref: bool, zz: int) -> bool:
    q1, t1, ke, te, ek, recalc, second = pick(q1, 0, 2), pick(t1, 0, TMAX), pick(ke, 0, 2), pick(te, 0, TMAX), pick(ek, 0, 4), pickb(recalc), pick(second, -1, 4)
    zsel, pre_ref = pick(zsel, 0, 2), pickb(pre_ref)
    if (pre_ref and recalc) or (second == 4 and zsel == 0):
        return True
    return _body([v0, v1, v2], [-1, p1_1, p1_2], [-1, p2_1, p2_2], [T0, T1, T2], z, g, q1, t1, ke, te, ek, w, recalc, second, zsel, pre_ref, zz)


@harness
def through_uncached(v0: int, v1: int, v2: int, z: int, g: int, p1_1: int, p2_1: int, p1_2: int, p2_2: int,
                     T0: bool, T1: bool, T2: bool, q1: int, t1: int, ke: int, te: int, ek: int, w: int, umask: int) -> bool:
    """The same with some cells uncached: a held value computed from the edited element THROUGH uncached cells - at any depth
    of the call stack - is discarded, everything else stays."""
    q1, t1, ke, te, ek, umask = pick(q1, 0, 2), pick(t1, 0, TMAX), pick(ke, 0, 2), pick(te, 0, TMAX), pick(ek, 0, 4), pick(umask, 1, 7)
    return _body([v0, v1, v2], [-1, p1_1, p1_2], [-1, p2_1, p2_2], [T0, T1, T2], z, g, q1, t1, ke, te, ek, w, False, -1, 0, False, 0, umask)


@harness
def nonevalue(v: int, w: int, nt: int, t: int, ke: int, asg: int, recalc: bool, second: int) -> bool:
    """None as a held value (allow_none): an assigned None is the value, is served without running the formula, survives;
    a computed None is held like any other value."""
    nt, t, ke, asg, recalc, second = pick(nt, 0, 2), pick(t, 0, 2), pick(ke, 0, 2), pick(asg, 0, 2), pickb(recalc), pick(second, 0, 3)
    with notrace():
        m = new_model("NV")
        S = m.new_space("S")
        m.hit = hit
        S.allow_none = True
        S.v, S.w, S.nt = 0, 0, -1
        S.new_cells("opt", formula="def opt(t):\n    hit(0, t)\n    return None if t == nt else v + t\n")
        S.new_cells("tot", formula="def tot(t):\n    hit(1, t)\n    o = opt(t)\n    return (0 if o is None else o) + w\n")
        S.v, S.w, S.nt = v, w, nt
    opt, tot = S.cells["opt"], S.cells["tot"]
    inputs = {}

    def exp_opt(k):
        if k in inputs:
            return inputs[k]
        return None if k == nt else v + k

    def exp_tot(k):
        o = exp_opt(k)
        return (0 if o is None else o) + w
    label("computed None at t=%d; request tot(%d)" % (nt, t))
    r = call(tot, t)
    if not check(r[0] == "ok" and r[1] == exp_tot(t), "value with a None-valued precedent", lambda: r):
        return False
    n0 = len(ctx.hits)
    r = call(opt, t)
    if not check(r[0] == "ok" and ((r[1] is None) if exp_opt(t) is None else r[1] == exp_opt(t)), "held (possibly None) value served", lambda: r):
        return False
    if not check(len(ctx.hits) == n0, "a held value of None must not make the formula run again", lambda: ctx.hits[n0:]):
        return False
    if recalc:
        mx.set_recalc(True)
    val = (None, 7, w)[asg]
    label("assign opt[%d] = %s%s" % (ke, ("None", "7", "w")[asg], " (recalc on)" if recalc else ""))
    n1 = len(ctx.hits)
    e = call(opt.__setitem__, ke, val)
    mx.set_recalc(False)
    if not check(e[0] == "ok", "assignment raised", lambda: e):
        return False
    inputs[ke] = val
    with notrace():
        isin = opt.is_input(ke)
        ran = [h for h in ctx.hits[n1:] if h[0] == 0 and h[1] == ke]
    if not check(isin and not ran, "assigned element is input and its formula did not run", lambda: (isin, ran)):
        return False
    n2 = len(ctx.hits)
    r = call(opt, ke)
    if not check(r[0] == "ok" and ((r[1] is None) if val is None else r[1] == val) and len(ctx.hits) == n2,
                 "the assigned value (None included) is what the cells returns, without running the formula", lambda: (r, ctx.hits[n2:])):
        return False
    r = call(tot, ke)
    if not check(r[0] == "ok" and r[1] == exp_tot(ke), "dependant computed from the assigned value", lambda: (r, exp_tot(ke))):
        return False
    label("then %s" % ("nothing", "opt.clear()", "another assignment", "reference change")[second])
    if second == 1:
        opt.clear()
    elif second == 2:
        opt[(ke + 1) % 3] = 5
        inputs[(ke + 1) % 3] = 5
    elif second == 3:
        S.w = w + 1
        w = w + 1
    with notrace():
        still = ke in [k[0] if isinstance(k, tuple) else k for k in dict(opt)] and opt.is_input(ke)
    if not check(still, "assigned input lost by a later operation"):
        return False
    n3 = len(ctx.hits)
    r = call(opt, ke)
    if not check(r[0] == "ok" and ((r[1] is None) if val is None else r[1] == val) and len(ctx.hits) == n3, "assigned value still served", lambda: r):
        return False
    r = call(tot, ke)
    return check(r[0] == "ok" and r[1] == exp_tot(ke), "dependant after the later operation", lambda: (r, exp_tot(ke)))


@harness
def recalc_fail(v: int, w: int, t: int, second: int) -> bool:
    """With recalculation on, a dependant that FAILS while being recomputed must not cost the assigned value its input
    status: rate[t] = 0 makes inverse(t) = 1 // rate(t) raise during the immediate recomputation."""
    t, second = pick(t, 0, 2), pick(second, 0, 3)
    with notrace():
        m = new_model("RF")
        S = m.new_space("S")
        m.hit = hit
        S.v, S.w = 0, 0
        S.new_cells("rate", formula="def rate(t):\n    hit(0, t)\n    return v + t * t + 1\n")
        S.new_cells("inverse", formula="def inverse(t):\n    hit(1, t)\n    return 100 // rate(t)\n")
        S.new_cells("total", formula="def total(t):\n    hit(2, t)\n    return inverse(t) + w\n")
        S.v, S.w = v, w
    rate, total = S.cells["rate"], S.cells["total"]
    if v + t * t + 1 == 0:
        return True
    r = call(total, t)
    if not check(r[0] == "ok", "initial evaluation", lambda: r):
        return False
    mx.set_recalc(True)
    label("recalc on; rate[%d] = 0 (the recomputed dependant divides by zero)" % t)
    e = call(rate.__setitem__, t, 0)
    mx.set_recalc(False)
    if not check(e[0] == "err" and e[1] == "ZeroDivisionError", "the failing recomputation is reported", lambda: e):
        return False
    if not check(executor_idle(), "executor idle after the failed recomputation"):
        return False
    with notrace():
        held = t in [k_[0] if isinstance(k_, tuple) else k_ for k_ in dict(rate)]
        isin = held and rate.is_input(t)
    if not check(isin, "the assigned value is held as an input although a dependant failed"):
        return False
    label("then %s" % ("nothing", "rate.clear()", "S.clear_cells / reference change", "repair")[second])
    if second == 1:
        rate.clear()
    elif second == 2:
        S.w = w + 1
        w = w + 1
    n0 = len(ctx.hits)
    r = call(rate, t)
    if not check(r[0] == "ok" and r[1] == 0 and len(ctx.hits) == n0, "the assigned value is still what the cells returns", lambda: (r, ctx.hits[n0:])):
        return False
    rate[t] = 5
    r = call(total, t)
    return check(r[0] == "ok" and r[1] == 20 + w, "after repairing the input everything evaluates", lambda: (r, 20 + w))


_NAT = dict(v0=1, v1=2, v2=3, z=4, g=5, p1_1=0, p2_1=-1, p1_2=1, p2_2=0, T0=False, T1=True, T2=True)
_Z0 = dict(zsel=0, pre_ref=False, zz=0)


def _parts(tier, seed):
    if tier == "quick":
        # top cells requested, recursion only on the top cells, second operation off except for one sweep
        ps = product(q1=[2], t1=[1], ke=[0, 1, 2], te=[0, 1], ek=[0, 1, 3], T0=[False], T1=[False], second=[-1])
        # a reference change before the edit and a change of the OTHER attribute-read reference after it (input must survive)
        ps += product(q1=[2], t1=[1], ke=[2, 1], te=[1], ek=[0], T0=[False], T1=[False], T2=[False], second=[3, 4], zsel=[1, 2], pre_ref=[True], recalc=[False])
        ps += product(q1=[2], t1=[1], ke=[0, 1], te=[1], ek=[0], T0=[False], T1=[False], second=[0, 1, 2, 3], recalc=[False])
        ps += product(q1=[1], t1=[1], ke=[0, 2], te=[0], ek=[0, 2, 4], T0=[True], T2=[False], second=[-1])
        return [dict(dict(zsel=0, pre_ref=False), **p) for p in ps]
    return product(q1=[1, 2], t1=[0, 1], ke=[0, 1, 2], te=[0, 1], ek=[0, 1, 2, 3, 4], second=[-1]) + \
        product(q1=[2], t1=[1], ke=[0, 1, 2], te=[0, 1], ek=[0], second=[0, 1, 2, 3])


QUERIES = [
    Query("edit", edit,
          pre=dag_pre(N) + ["0 <= q1 < 3", "0 <= t1 <= 1", "0 <= ke < 3", "0 <= te <= 1", "0 <= ek < 5", "-1 <= second <= 4", "0 <= zsel <= 2"],
          partitions=_parts,
          natives=[dict(_NAT, **_Z0, q1=2, t1=1, ke=0, te=1, ek=0, w=100, recalc=False, second=-1),
                   dict(_NAT, **_Z0, q1=2, t1=1, ke=1, te=0, ek=0, w=100, recalc=True, second=2),
                   dict(_NAT, **_Z0, q1=2, t1=1, ke=1, te=1, ek=1, w=0, recalc=False, second=-1),
                   dict(_NAT, **_Z0, q1=2, t1=1, ke=0, te=0, ek=3, w=0, recalc=False, second=-1),
                   dict(_NAT, **_Z0, q1=1, t1=1, ke=2, te=0, ek=0, w=7, recalc=True, second=0),
                   dict(_NAT, **_Z0, q1=2, t1=1, ke=2, te=1, ek=4, w=7, recalc=False, second=-1),
                   dict(_NAT, q1=2, t1=1, ke=2, te=1, ek=0, w=7, recalc=False, second=4, zsel=1, pre_ref=True, zz=9),
                   dict(_NAT, q1=2, t1=1, ke=2, te=1, ek=0, w=7, recalc=False, second=4, zsel=2, pre_ref=True, zz=9),
                   dict(_NAT, q1=2, t1=1, ke=1, te=1, ek=0, w=7, recalc=False, second=3, zsel=1, pre_ref=True, zz=9)],
          bounds=lambda tier: {"cells": N, "t_max": TMAX, "edits": EDITS, "assigned_value": "unbounded int", "recalc": [False, True],
                               "second_operation": ["none", "clear()", "assign elsewhere", "model ref change", "child ref change"],
                               "dag": "pointers symbolic (36 shapes); recursion switches symbolic in thorough, T2 only in quick"},
          outside=["more than one value edit followed by one further operation", "cells with several parameters", "N > 3"]),
]
QUERIES.append(
    Query("nonevalue", nonevalue, pre=["0 <= nt <= 2", "0 <= t <= 2", "0 <= ke <= 2", "0 <= asg <= 2", "0 <= second <= 3"],
          partitions=lambda tier, seed: [dict(asg=a_, second=s_) for a_ in range(3) for s_ in range(4)],
          natives=[dict(v=3, w=4, nt=n_, t=t_, ke=k_, asg=a_, recalc=r_, second=s_) for (n_, t_, k_, a_, r_, s_) in
                   ((1, 1, 1, 0, False, 1), (0, 1, 1, 0, True, 2), (2, 2, 0, 1, False, 3), (1, 0, 1, 2, True, 0), (1, 1, 2, 0, False, 3))],
          bounds=lambda tier: {"model": "opt(t) returns None at one symbolic t, tot(t) depends on it; allow_none on the space", "assigned": ["None", "7", "symbolic w"],
                               "t": "0..2", "recalc": [False, True], "follow_up": ["none", "clear()", "assignment elsewhere", "reference change"]},
          outside=["None in cells with several parameters"]))
QUERIES.append(
    Query("recalc_fail", recalc_fail, pre=["0 <= t <= 2", "0 <= second <= 3"],
          partitions=lambda tier, seed: [dict(second=k_) for k_ in range(4)],
          natives=[dict(v=3, w=4, t=1, second=k_) for k_ in range(4)],
          bounds=lambda tier: {"model": "rate(t) <- inverse(t) = 100 // rate(t) <- total(t)", "t": "0..2", "v, w": "unbounded", "follow_up": ["none", "clear()", "reference change", "repair"]},
          outside=[]))
QUERIES.append(
    Query("through_uncached", through_uncached,
          pre=dag_pre(N) + ["0 <= q1 < 3", "0 <= t1 <= 1", "0 <= ke < 3", "0 <= te <= 1", "0 <= ek < 5", "1 <= umask <= 7"],
          partitions=lambda tier, seed: (product(q1=[2], t1=[1], ke=[0], te=[0, 1], ek=[0, 1], umask=[2, 1, 3], T0=[False], T1=[False]) +
                                         product(q1=[2], t1=[1], ke=[2], te=[0], ek=[0, 3], umask=[1, 2], T0=[False]) +
                                         product(q1=[2], t1=[1], ke=[0, 1], te=[0], ek=[0], umask=[4, 6, 5], T0=[False], T1=[False])) if tier == "quick" else
          product(q1=[1, 2], t1=[1], ke=[0, 1, 2], te=[0, 1], ek=[0, 1, 3], umask=[1, 2, 3, 4, 5, 6]),
          natives=[dict(_NAT, q1=2, t1=1, ke=0, te=0, ek=0, w=100, umask=2), dict(_NAT, q1=2, t1=1, ke=0, te=1, ek=1, w=100, umask=2), dict(_NAT, p2_2=-1, q1=2, t1=1, ke=0, te=0, ek=0, w=100, umask=2), dict(_NAT, p2_2=-1, T1=False, q1=2, t1=1, ke=0, te=0, ek=1, w=100, umask=2),
                   dict(_NAT, T1=False, q1=2, t1=1, ke=0, te=0, ek=0, w=100, umask=2), dict(_NAT, q1=2, t1=1, ke=2, te=0, ek=0, w=100, umask=3),
                   dict(_NAT, q1=2, t1=1, ke=1, te=0, ek=0, w=100, umask=4), dict(_NAT, T1=False, q1=2, t1=1, ke=0, te=0, ek=3, w=100, umask=6)],
          bounds=lambda tier: {"cells": N, "t_max": TMAX, "uncached_masks": "non-empty subsets (quick: 7 of them on selected edits)", "edits": EDITS, "assigned_value": "unbounded int",
                               "dag": "pointers symbolic; chains request -> cached -> uncached -> edited element at stack depth >= 2 included"},
          outside=["recalculation option together with uncached cells"]))
BUDGET = {"quick": 400, "thorough": 1200}
