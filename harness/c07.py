"""C07 ItemSpaces are parametrised, isolated, identity-stable instances of their base.  Selectors: parameter signature,
argument spelling, nesting, formula returning extra refs / another base, one edit of the base; reference values and the
edit operand are unbounded symbolic ints, arguments are small ints (they become cache keys).  Oracle: a static space
built by hand with the parameters bound as references and the same formulas."""
from kit import *  # noqa
use_formula_memo()

SIGS = [
    ("lambda n: None", ("n",)),
    ("lambda n, q=1: None", ("n", "q")),
    ("lambda n=0: None", ("n",)),
    ("lambda n: {'refs': {'extra': n * 10 + k}}", ("n",)),
    ("lambda n: {'base': Other}", ("n",)),
]
CELLS = [("h", "lambda t: n * t + k + g + extra"), ("hh", "lambda t: h(t) + 1"), ("viaspace", "lambda: _space.h(2) + PC.pc()")]
OTHER_CELLS = [("h", "lambda t: n * t + k + g + extra + 1000"), ("hh", "lambda t: h(t) + 2"), ("viaspace", "lambda: _space.h(2) + 7")]
EDITS = ["none", "P.k = v", "m.g = v", "P.h.formula changed", "P.extra = v", "P.formula changed (same signature)", "del P.hh; new hh",
         "P.PC.pc.formula changed", "del hh in the space the instances are built from (P, or Other for 'base': Other)", "P.NP.formula gets a second parameter", "del P.PC.k2 (reference of the child space)", "P.PC.lateref = v (new reference in the child space)"]
NEW_H = "lambda t: n * t + k + g + extra + 5"


class M:
    """P (parametric) and the hand-built static twin St(n=a[,q])."""

    def __init__(self, sig, k, g, k2, tag):
        self.sig = sig
        with notrace():
            m = self.m = new_model(tag)
            m.g = g
            self.Other = m.new_space("Other")
            self.Other.k, self.Other.extra = k, 0
            for n, src in OTHER_CELLS:
                self.Other.new_cells(n, formula=src)
            P = self.P = m.new_space("P", formula=SIGS[sig][0])
            P.k, P.extra = k, 0
            P.Other = self.Other
            for n, src in CELLS:
                P.new_cells(n, formula=src)
            PC = P.new_space("PC")
            PC.k2 = k2
            PC.new_cells("pc", formula="lambda: n + k2")
            PC.new_cells("late", formula="lambda: n + lateref")          # lateref does not exist at first
            PC.new_space("Z").new_cells("zf", formula="lambda: n + 1")   # two grandchild spaces of the SAME name under different children
            PD = P.new_space("PD")
            PD.new_space("Z").new_cells("zf", formula="lambda: n + 2")
            NP = P.new_space("NP", formula="lambda r: None")         # nested parametric child
            NP.new_cells("both", formula="lambda: n * 100 + r * 10 + g")
            NQ = P.new_space("NQ", formula="lambda n: None")         # nested parametric child REUSING the parameter name of its parent
            NQ.new_cells("inner", formula="lambda: n * 2 + g")
            NQ.new_cells("twice", formula="lambda: inner() * 2")
            PS = self.PS = m.new_space("PS", bases=P, formula=SIGS[sig][0])      # derives P's cells and refs; instances of PS inherit them
            PS.new_cells("own", formula="lambda t: h(t) * 2")

    def static(self, n, q, k, g, k2, extra, h_src=None, pc_src=None, hh_src=None, no_k2=False, lateref=None):
        """Oracle space: parameters bound as plain references."""
        with notrace():
            m = self.m
            name = "St%d" % len(m.spaces)
            St = m.new_space(name)
            St.n, St.k, St.extra = n, k, extra
            if "q" in SIGS[self.sig][1]:
                St.q = q
            cells = OTHER_CELLS if self.sig == 4 else CELLS
            for nm, src in cells:
                if nm == "h" and h_src and self.sig != 4:
                    src = h_src
                if nm == "hh" and hh_src == "DELETED":
                    continue
                if nm == "hh" and hh_src and self.sig != 4:
                    src = hh_src
                St.new_cells(nm, formula=src)
            if self.sig != 4:
                PC = St.new_space("PC")
                PC.n = n
                if not no_k2:
                    PC.k2 = k2
                if lateref is not None:
                    PC.lateref = lateref[0]
                PC.new_cells("pc", formula=pc_src or "lambda: n + k2")
                PC.new_cells("late", formula="lambda: n + lateref")
                Z1 = PC.new_space("Z")
                Z1.n = n
                Z1.new_cells("zf", formula="lambda: n + 1")
                PD = St.new_space("PD")
                Z2 = PD.new_space("Z")
                Z2.n = n
                Z2.new_cells("zf", formula="lambda: n + 2")
            return St


def _inst(mm, a, spell):
    P = mm.PS if getattr(mm, "use_derived", False) else mm.P
    two = "q" in SIGS[mm.sig][1]
    if spell == 0:
        return P[a]
    if spell == 1:
        return P(a)
    if spell == 2:
        return P(n=a)
    if spell == 3:
        return P[a, 1] if two else P[(a,)]
    if spell == 4:
        return P(a, q=1) if two else (P() if (mm.sig == 2 and a == 0) else P(a))
    raise ValueError(spell)


def _values(sp, with_child):
    out = {"h0": call(lambda: sp.cells["h"](0)), "h2": call(lambda: sp.cells["h"](2)), "hh1": call(lambda: sp.cells["hh"](1))}
    if with_child:
        out["viaspace"] = call(lambda: sp.cells["viaspace"]())
        out["pc"] = call(lambda: sp.spaces["PC"].cells["pc"]())
        out["late"] = call(lambda: sp.spaces["PC"].cells["late"]())
        out["z1"] = call(lambda: sp.spaces["PC"].spaces["Z"].cells["zf"]())
        out["z2"] = call(lambda: sp.spaces["PD"].spaces["Z"].cells["zf"]())
        out["zdistinct"] = call(lambda: (sp.spaces["PC"].spaces["Z"] is not sp.spaces["PD"].spaces["Z"]) and sp.spaces["PD"].spaces["Z"].parent is sp.spaces["PD"])
    return out


@harness
def itemspace(k: int, g: int, k2: int, v: int, w: int, sig: int, a: int, b: int, s1: int, s2: int, ed: int, derived: bool) -> bool:
    sig, a, b, s1, s2, ed, derived = pick(sig, 0, 4), pick(a, 0, 1), pick(b, 0, 1), pick(s1, 0, 4), pick(s2, 0, 4), pick(ed, 0, len(EDITS) - 1), pickb(derived)
    if derived and (sig == 4 or ed in (5, 7, 9, 10, 11)):
        return True            # (base chosen by the formula / child-space edits: covered with derived=False)
    label("sig %s%s" % (SIGS[sig][0], " - instances of a space DERIVED from P" if derived else ""))
    mm = M(sig, k, g, k2, "I")
    mm.use_derived = derived
    m, P = mm.m, mm.P
    IS = mm.PS if derived else mm.P        # the space whose instances are examined; edits go to P (the definer)
    label("P%s spelled %d and %d" % ((a,), s1, s2))
    i1 = _inst(mm, a, s1)
    i2 = _inst(mm, a, s2)
    if not check(i1 is i2, "equally binding spellings give the same instance"):
        return False
    other = _inst(mm, 1 - a, s1)
    if not check(other is not i1, "different arguments give different instances"):
        return False
    extra = (a * 10 + k) if sig == 3 else 0
    St = mm.static(a, 1, k, g, k2, extra)
    got, exp = _values(i1, sig != 4 and not derived), _values(St, sig != 4 and not derived)
    for key in sorted(got):
        if not check(same_outcome(got[key], exp[key]), "instance value %s == base formulas with parameters bound" % key, lambda: (got[key], exp[key])):
            return False
    if derived:
        o = call(i1.cells["own"], 1)
        if not check(o[0] == "ok" and same_outcome(("ok", o[1]), ("ok", exp["h2"][1] * 0 + (a * 1 + k + g + extra) * 2)), "cells defined in the derived space uses the inherited cells inside the instance", lambda: o):
            return False
    if sig != 4 and not derived:
        nested = call(lambda: i1.spaces["NP"][b].cells["both"]())
        if not check(nested[0] == "ok" and nested[1] == a * 100 + b * 10 + g, "nested ItemSpace sees both parameters", lambda: nested):
            return False
        for bb in (b, 1 - b):
            shadow = call(lambda: (i1.spaces["NQ"][bb].n, i1.spaces["NQ"][bb].cells["inner"](), i1.spaces["NQ"][bb].cells["twice"]()))
            if not check(shadow[0] == "ok" and shadow[1][0] == bb and shadow[1][1] == bb * 2 + g and shadow[1][2] == (bb * 2 + g) * 2,
                         "nested ItemSpace reusing its parent's parameter name binds its OWN argument", lambda: (shadow, bb)):
                return False
    with notrace():
        keys = set(IS.itemspaces)
        want = {(0, 1), (1, 1)} if "q" in SIGS[sig][1] else {0, 1}
    if not check(keys == want, "itemspaces lists exactly the created instances", lambda: (keys, want)):
        return False
    # ---- isolation: an input in one instance is invisible in the other
    label("input in P%s" % ((a,),))
    i1.cells["h"][5] = w
    r1, r2 = call(i1.cells["h"], 5), call(other.cells["h"], 5)
    extra_o = ((1 - a) * 10 + k) if sig == 3 else 0
    exp_o = (1 - a) * 5 + k + g + extra_o + (1000 if sig == 4 else 0)
    if not check(r1[0] == "ok" and r1[1] == w and r2[0] == "ok" and r2[1] == exp_o, "input isolated to its instance", lambda: (r1, r2, exp_o)):
        return False
    if ed == 0:
        return True
    # ---- one edit of the definitions; old handle raises or reflects the edited definitions
    label(EDITS[ed])
    kk, gg, ee, hsrc, pcsrc, hhsrc = k, g, None, None, None, None
    nok2, late = False, None
    if ed == 1:
        P.k = v
        mm.Other.k = v
        kk = v
    elif ed == 2:
        m.g = v
        gg = v
    elif ed == 3:
        P.cells["h"].formula = NEW_H
        hsrc = NEW_H
    elif ed == 4:
        P.extra = v
        ee = v
    elif ed == 5:
        P.formula = SIGS[sig][0].replace("None", "None ").replace("{'", "{ '")
    elif ed == 6:
        del P.hh
        P.new_cells("hh", formula="lambda t: h(t) + 3")
        hhsrc = "lambda t: h(t) + 3"
    elif ed == 7:
        P.PC.cells["pc"].formula = "lambda: n + k2 + 9"
        pcsrc = "lambda: n + k2 + 9"
    elif ed == 8:
        if sig == 4:
            del mm.Other.hh
        else:
            del P.hh
        hhsrc = "DELETED"
    elif ed == 9:
        P.NP.formula = "lambda r, s=5: None"
    elif ed == 10:
        del P.PC.k2
        nok2 = True
    elif ed == 11:
        P.PC.lateref = v
        late = (v,)
    with notrace():
        survived = ((a, 1) if "q" in SIGS[sig][1] else a) in IS.itemspaces
    label("instance %s the edit" % ("survived" if survived else "was discarded by"))
    extra2 = (a * 10 + kk) if sig == 3 else (ee if ee is not None and sig != 4 else 0)
    St2 = mm.static(a, 1, kk, gg, k2, extra2, h_src=hsrc, pc_src=pcsrc, hh_src=hhsrc, no_k2=nok2, lateref=late)
    exp2 = _values(St2, sig != 4 and not derived)
    new = _inst(mm, a, s1)
    got2 = _values(new, sig != 4 and not derived)
    for key in sorted(got2):
        if key == "h2" or key == "h0" or True:
            if not check(same_outcome(got2[key], exp2[key]), "re-created instance value %s reflects the edit" % key, lambda: (got2[key], exp2[key])):
                return False
    if ed == 9 and sig != 4 and not derived:
        with notrace():
            pars = tuple(new.spaces["NP"].parameters)
        if not check(pars == ("r", "s"), "child space of the re-created instance has the new parameters", lambda: pars):
            return False
        nb = call(lambda: new.spaces["NP"][b, 3].cells["both"]())
        if not check(nb[0] == "ok" and nb[1] == a * 100 + b * 10 + gg, "nested instance with the new signature", lambda: nb):
            return False
    # old handle: either dead or equal to the current definitions
    try:
        old = _values(i1, sig != 4 and not derived)
    except DeletedObjectError:
        label("old handle dead")
        return True
    for key in sorted(old):
        if old[key][0] == "err" and old[key][1] == "DeletedObjectError":
            continue
        if not check(same_outcome(old[key], exp2[key]), "old handle serves a value not reflecting the current definitions: %s" % key, lambda: (old[key], exp2[key])):
            return False
    r = call(i1.cells["h"], 5)
    if survived:
        return check(r[0] == "ok" and r[1] == w, "input of an instance that was not discarded persists", lambda: r)
    if not check(r[0] == "err" or r[1] == 5 * a + kk + gg + extra2 + (5 if ed == 3 else 0) + (1000 if sig == 4 else 0),
                 "input of a discarded instance must not survive in the re-created one", lambda: r):
        return False
    return True


REDERIVE = ["RS.remove_bases(RB1)", "del RB1.foo", "RB0.new_cells('foo') in a base added in front", "RS.add_bases(RB3) defining bar only", "del RB1.r (reference)", "RB1.foo.formula changed"]


@harness
def rederive(n0: int, a: int, how: int, own: bool, pre: bool, refs: bool) -> bool:
    """A parametric space whose members are all DERIVED (two bases defining the same cells / reference): when the nearest
    definer changes, existing instances must not keep serving the members of the former one."""
    a, how, own, pre, refs = pick(a, 0, 1), pick(how, 0, len(REDERIVE) - 1), pickb(own), pickb(pre), pickb(refs)
    if how == 4 and not refs:
        return True
    n100 = n0 + 100                    # (arithmetic on a symbolic value must happen under tracing)
    with notrace():
        m = new_model("RD")
        RB0 = m.new_space("RB0")
        RB1 = m.new_space("RB1", bases=RB0)
        RB1.new_cells("foo", formula="lambda: n + 1")
        RB2 = m.new_space("RB2")
        RB2.new_cells("foo", formula="lambda: n + 2")
        if refs:
            RB1.r = n0
            RB2.r = n100
        else:
            m.r = n0                   # (a model-level reference: the same for every definer)
        RB3 = m.new_space("RB3")
        RB3.new_cells("bar", formula="lambda: foo() * 10")
        RS = m.new_space("RS", bases=[RB1, RB2], formula="lambda n: None")
        if own:
            RS.new_cells("mine", formula="lambda: foo() + r")
    label("%s; RS %s; %s" % (REDERIVE[how], "defines a cells of its own" if own else "has derived members only", "bases define a reference too" if refs else "bases define cells only"))
    inst = RS[a]
    f = inst.cells["foo"]
    if pre:
        v0 = call(f)
        if not check(v0[0] == "ok" and v0[1] == a + 1 and inst.r == n0, "instance of the derived space before the edit", lambda: v0):
            return False
    exp_foo, exp_r, exp_bar = a + 1, n0, None
    if how == 0:
        RS.remove_bases(RB1)
        exp_foo, exp_r = a + 2, (n100 if refs else n0)
    elif how == 1:
        del RB1.foo
        exp_foo = a + 2
    elif how == 2:
        RB0.new_cells("foo", formula="lambda: n + 7")       # RB1 still defines foo first: nothing changes for RS
    elif how == 3:
        RS.add_bases(RB3)
        exp_bar = (a + 1) * 10
    elif how == 4:
        del RB1.r
        exp_r = n100
    elif how == 5:
        RB1.cells["foo"].formula = "lambda: n + 5"
        exp_foo = a + 5
    new = RS[a]
    got = {"foo": call(lambda: new.cells["foo"]()), "r": call(lambda: new.r), "S.foo": call(lambda: RS.cells["foo"]())}
    if not check(got["foo"][0] == "ok" and got["foo"][1] == exp_foo, "instance serves the cells of the current nearest definer", lambda: (got, exp_foo)):
        return False
    if not check(got["r"][0] == "ok" and got["r"][1] == exp_r, "instance serves the reference of the current nearest definer", lambda: (got, exp_r)):
        return False
    if exp_bar is not None:
        b = call(lambda: new.cells["bar"]())
        if not check(b[0] == "ok" and b[1] == exp_bar, "instance has the member of the added base", lambda: b):
            return False
    if own:
        o = call(lambda: new.cells["mine"]())
        if not check(o[0] == "ok" and o[1] == exp_foo + exp_r, "own cells of the space evaluates inside the instance with the current members", lambda: o):
            return False
    old = call(f)                      # the cells handle taken before the edit
    if not check((old[0] == "err" and old[1] == "DeletedObjectError") or (old[0] == "ok" and old[1] == exp_foo),
                 "old cells handle raises the deleted-object error or reflects the current definitions", lambda: old):
        return False
    oldi = call(lambda: inst.cells["foo"]())
    return check((oldi[0] == "err" and oldi[1] == "DeletedObjectError") or (oldi[0] == "ok" and oldi[1] == exp_foo),
                 "old instance handle raises the deleted-object error or reflects the current definitions", lambda: oldi)


FB_EDITS = ["FB.new_space('NC') with a cells", "del FB.FC", "FB.fb.formula changed", "FB.FC.fc.formula changed", "FB.new_cells('extra')", "FB.FC.new_cells('e2')",
            "FB.FC.y = v (reference of the child space)", "del FB.fb"]


@harness
def formula_base(v: int, how: int, pre: bool) -> bool:
    """Instances built from a space that the parameter formula NAMES as base ({'base': FB}), several alive at once: after any
    edit of FB's tree every instance - old handle or re-created - reflects the current definitions of FB."""
    how, pre = pick(how, 0, len(FB_EDITS) - 1), pickb(pre)
    with notrace():
        m = new_model("FBm")
        FB = m.new_space("FB")
        FB.new_cells("fb", formula="lambda: n + 1")
        FC = FB.new_space("FC")
        FC.y = 0
        FC.new_cells("fc", formula="lambda: n + 2 + y")
        PF = m.new_space("PF", formula="lambda n: {'base': FBref}")
        PF.FBref = FB
    label("%s; %s" % (FB_EDITS[how], "values computed before" if pre else "instances only created"))
    olds = [PF[j] for j in range(3)]
    if pre:
        for j in range(3):
            r0 = call(lambda: (olds[j].cells["fb"](), olds[j].spaces["FC"].cells["fc"]()))
            if not check(r0[0] == "ok" and r0[1] == (j + 1, j + 2), "instance built from the named base", lambda: r0):
                return False
    fb, fc, y = 1, 2, 0
    extra = e2 = nc = has_fc = None
    has_fc, has_fb = True, True
    if how == 0:
        FB.new_space("NC").new_cells("nc", formula="lambda: n + 9")
        nc = 9
    elif how == 1:
        del FB.FC
        has_fc = False
    elif how == 2:
        FB.cells["fb"].formula = "lambda: n + 11"
        fb = 11
    elif how == 3:
        FB.FC.cells["fc"].formula = "lambda: n + 12 + y"
        fc = 12
    elif how == 4:
        FB.new_cells("extra", formula="lambda: fb() * 10")
        extra = True
    elif how == 5:
        FB.FC.new_cells("e2", formula="lambda: fc() * 100")
        e2 = True
    elif how == 6:
        FB.FC.y = v
        y = v
    elif how == 7:
        del FB.fb
        has_fb = False
    for j in range(3):
        for which, inst in (("re-requested", None), ("old handle", olds[j])):
            sp = PF[j] if inst is None else inst

            def probe():
                out = {"cells": sorted(sp.cells), "spaces": sorted(sp.spaces)}
                if has_fb:
                    out["fb"] = sp.cells["fb"]()
                if has_fc:
                    out["fc"] = sp.spaces["FC"].cells["fc"]()
                if extra:
                    out["extra"] = sp.cells["extra"]()
                if e2:
                    out["e2"] = sp.spaces["FC"].cells["e2"]()
                if nc:
                    out["nc"] = sp.spaces["NC"].cells["nc"]()
                return out
            r = call(probe)
            if r[0] == "err" and r[1] == "DeletedObjectError" and inst is not None:
                continue
            want = {"cells": sorted((["fb"] if has_fb else []) + (["extra"] if extra else [])), "spaces": sorted((["FC"] if has_fc else []) + (["NC"] if nc else []))}
            if has_fb:
                want["fb"] = j + fb
            if has_fc:
                want["fc"] = j + fc + y
            if extra:
                want["extra"] = (j + fb) * 10
            if e2:
                want["e2"] = (j + fc + y) * 100
            if nc:
                want["nc"] = j + 9
            if not check(r[0] == "ok" and r[1] == want, "instance PF[%d] (%s) reflects the current definitions of the named base" % (j, which), lambda: (r, want)):
                return False
    return True


NS, NE = len(SIGS), len(EDITS)
QUERIES = [
    Query("itemspace", itemspace, pre=["0 <= sig < %d" % NS, "0 <= a <= 1", "0 <= b <= 1", "0 <= s1 < 5", "0 <= s2 < 5", "0 <= ed < %d" % NE],
          partitions=lambda tier, seed: ([dict(sig=s, ed=e, s1=0, s2=[1, 4], derived=False) for s in range(NS) for e in (0, 1, 3)] +
                                         [dict(sig=s, ed=[4, NE - 1], s1=0, s2=1, b=0, derived=False) for s in range(NS)] +
                                         [dict(sig=s, ed=2, s1=[1, 4], s2=0, b=1, derived=False) for s in range(NS)] +
                                         [dict(sig=s, ed=[0, NE - 1], s1=0, s2=1, b=0, derived=True) for s in range(NS - 1)]) if tier == "quick" else
          [dict(sig=s, ed=e, s1=s1) for s in range(NS) for e in range(NE) for s1 in range(5)],
          natives=[dict(k=3, g=4, k2=5, v=77, w=99, sig=s, a=a, b=1, s1=s1, s2=s2, ed=e, derived=False)
                   for (s, a, s1, s2, e) in ((0, 1, 0, 1, 1), (1, 0, 3, 4, 3), (2, 0, 4, 0, 2), (3, 1, 2, 0, 1), (4, 1, 1, 2, 4), (0, 0, 0, 2, 5), (1, 1, 1, 2, 6), (3, 0, 0, 1, 7), (2, 1, 1, 1, 0), (4, 1, 0, 1, 8), (0, 1, 0, 1, 8), (0, 0, 0, 1, 9), (1, 1, 0, 1, 9), (0, 1, 0, 1, 10), (1, 0, 0, 1, 11), (3, 1, 0, 1, 11))] +
                  [dict(k=3, g=4, k2=5, v=77, w=99, sig=s, a=1, b=0, s1=0, s2=1, ed=e, derived=True) for (s, e) in ((0, 3), (1, 1), (2, 6), (3, 4), (0, 2))],
          bounds=lambda tier: {"signatures": [s[0] for s in SIGS], "spellings": 5, "arguments": "{0,1}", "edits": EDITS, "nesting": "parametric child of a parametric space (distinct parameter names, and the parent's name reused)", "derived": "instances of a parametric space that inherits the cells/refs from P, edits applied to P",
                               "values": "k, g, k2, edit operand, assigned input: unbounded symbolic ints"},
          outside=["more than two parameters", "two edits", "formulas returning 'bases' lists"]),
]
QUERIES.append(
    Query("rederive", rederive, pre=["0 <= a <= 1", "0 <= how < %d" % len(REDERIVE)],
          partitions=lambda tier, seed: [dict(how=h_) for h_ in range(len(REDERIVE))],
          natives=[dict(n0=7, a=1, how=h_, own=o_, pre=p_, refs=True) for h_ in range(len(REDERIVE)) for (o_, p_) in ((False, True), (True, False))] +
                  [dict(n0=7, a=0, how=h_, own=o_, pre=True, refs=False) for h_ in (0, 1, 2, 3, 5) for o_ in (False, True)],
          bounds=lambda tier: {"edits": REDERIVE, "space": "RS(RB1(RB0), RB2) parametric, all members derived (optionally one own cells)", "argument": "{0,1}", "reference value": "unbounded symbolic int"},
          outside=["deeper base chains"]))
QUERIES.append(
    Query("formula_base", formula_base, pre=["0 <= how < %d" % len(FB_EDITS)],
          partitions=lambda tier, seed: [dict(how=h_) for h_ in range(len(FB_EDITS))],
          natives=[dict(v=5, how=h_, pre=p_) for h_ in range(len(FB_EDITS)) for p_ in (True,)] + [dict(v=5, how=1, pre=False), dict(v=5, how=0, pre=False)],
          bounds=lambda tier: {"edits": FB_EDITS, "instances": "PF[0], PF[1], PF[2] alive at once, old handles and re-requested ones", "reference value": "unbounded symbolic int"},
          outside=["bases lists returned by the formula", "nested parametric spaces below a named base"]))
BUDGET = {"quick": 420, "thorough": 1200}
