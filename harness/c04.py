"""C04 write/read round trip (directory and zip).  A model is assembled from a feature vector (selectors); it is
written, read back, and the public descriptions, the file listings and the values of cells (for a symbolic-range
argument) are compared; chains write-read-write are included.  Values cross json / pickle / the tokenizer (C code), so
CrossHair realises them: this check is a solver-driven exhaustive enumeration of the feature menu (pairs of features),
not a for-all-values result.  Kernel query: abs_to_rel/rel_to_abs round trip on paths drawn from a pool of names that
are prefixes of each other."""
from kit import *  # noqa
import os as _os
import shutil as _sh
import zipfile as _zf

DOCS = [None, "plain doc", 'ends with a quote"', "back\\slash and \\n inside", "has ''' inside", "multi\nline\n  indented", 'has """ inside', "'", '"quoted"', " leading and trailing "]
REFVALS = [("int", 5), ("str", "text 'q' \"d\""), ("bool", True), ("float", 2.5), ("tuple", (1, "a", (2,))), ("list", [1, [2]]), ("dict", {"a": 1}), ("none", None), ("bytes", b"x\x00")]
MODES = ["auto", "relative", "absolute"]
FEATURES = ["baseline", "def cells", "uncached cells", "allow_none on cells", "allow_none on space", "allow_none on model", "doc on model", "doc on space",
            "doc on def cells", "doc on lambda cells", "ref value kind", "object ref: own cells", "object ref: child space", "object ref: other space's cells",
            "inheritance", "param formula def", "param formula lambda with default", "input in cells", "input in ItemSpace", "nested space", "model-level ref",
            "ref to model", "multi-line lambda", "def with default and annotation", "prefix-related member names, data on the longer one"]


def build(feats, tag):
    """feats: dict feature-index -> variant int.  Concrete construction."""
    m = new_model(tag)
    A = m.new_space("A")
    A.k = 3
    A.new_cells("f", formula="lambda t: t * k + 1")
    Other = m.new_space("Other")
    Other.new_cells("of", formula="lambda t: t + 100")
    for f, v in sorted(feats.items()):
        if f == 1:
            A.new_cells("d", formula="def d(t, u=2):\n    # comment\n    return f(t) + u\n")
        elif f == 2:
            A.new_cells("unc", formula="lambda t: t - 1", is_cached=False)
        elif f == 3:
            A.f.allow_none = (True, False)[v % 2]
        elif f == 4:
            A.allow_none = (True, False)[v % 2]
        elif f == 5:
            m.allow_none = (True, False)[v % 2]
        elif f == 6:
            m.doc = DOCS[v % len(DOCS)]
        elif f == 7:
            A.doc = DOCS[v % len(DOCS)]
        elif f == 8:
            doc = DOCS[v % len(DOCS)]          # docstring written as a literal in the def's own source text
            A.new_cells("dd", formula="def dd(t):\n%s    return t + 7\n" % ("" if doc is None else "    %r\n" % doc))
        elif f == 9:
            if DOCS[v % len(DOCS)] is not None:
                A.f.doc = DOCS[v % len(DOCS)]
        elif f == 10:
            A.rv = REFVALS[v % len(REFVALS)][1]
        elif f == 11:
            A.set_ref("ro", A.f, MODES[v % 3])
        elif f == 12:
            Ch = A.new_space("Ch") if "Ch" not in A.spaces else A.Ch
            A.set_ref("rc", Ch, MODES[v % 3])
        elif f == 13:
            A.set_ref("rx", Other.of, MODES[v % 3])
        elif f == 14:
            B = m.new_space("B", bases=A)
            B.new_cells("own", formula="lambda t: f(t) * 2")
            if v % 2:
                B.f.formula = "lambda t: t * k + 2"
        elif f == 15:
            A.formula = "def _formula(n):\n    return None\n" if v % 2 == 0 else "lambda n: {'refs': {'extra': n}}"
        elif f == 16:
            Other.formula = "lambda p, q=1: None"
        elif f == 17:
            A.f[10] = 1000
            A.f[11] = -1
        elif f == 18:
            pass                                   # applied last (below): any later edit of A's tree would discard the ItemSpaces again
        elif f == 19:
            N = (A.new_space("Ch") if "Ch" not in A.spaces else A.Ch).new_space("N")
            N.new_cells("nf", formula="lambda: 9")
            N.z = "zz"
        elif f == 20:
            m.gref = REFVALS[v % len(REFVALS)][1]
        elif f == 21:
            A.rm = m
        elif f == 22:
            A.new_cells("ml", formula="lambda t: (t +\n        k +\n    1)")
        elif f == 24:
            # names that are string prefixes of each other: cells f / f2 / f_adj, spaces A / AB / A_2, refs k / k2
            A.new_cells("f2", formula="lambda t: t + 2")
            A.new_cells("f_adj", formula="lambda t: f(t) + 3")
            if v % 3 == 0:
                A.f_adj[0] = 50
                A.f2[3] = 7
            elif v % 3 == 1:
                A.f2[1] = 9
            AB = m.new_space("AB")
            AB.new_cells("f", formula="lambda t: t * 11")
            AB.f[5] = 1
            A.new_space("A").new_cells("f", formula="lambda: 1")
            A.k2 = (1, 2)
            if v % 3 == 2:
                A.formula = "lambda n: None"
                A[1].f_adj[2] = 8
                A[11].f[2] = 9
        elif f == 23:
            A.new_cells("ann", formula="def ann(t: int = 3, *, key=None) -> int:\n    \"\"\"doc\"\"\"\n    x = [i for i in range(t)]\n    return len(x)\n")
    if 18 in feats:
        if A.formula is None:
            A.formula = "lambda n: None"
        A[1].f[10] = 77
        if feats[18] % 2:
            A[2].f[3] = 5
    return m


def listing_dir(path):
    out = []
    for root, dirs, files in _os.walk(path):
        for f in files:
            out.append(_os.path.relpath(_os.path.join(root, f), path).replace(_os.sep, "/"))
    return sorted(out)


def listing_zip(path):
    with _zf.ZipFile(path) as z:
        return sorted(n for n in z.namelist() if not n.endswith("/"))


def _values(m, t):
    out = {}
    for sn, sp in m.spaces.items():
        for cn, c in sp.cells.items():
            n = len(c.parameters)
            try:
                out["%s.%s" % (sn, cn)] = call(c, *([t] * min(n, 1)))
            except Exception as e:
                out["%s.%s" % (sn, cn)] = ("exc", type(e).__name__)
    return out


NVAR = {24: 3, 3: 2, 4: 2, 5: 2, 6: len(DOCS), 7: len(DOCS), 8: len(DOCS), 9: len(DOCS), 10: len(REFVALS), 11: 3, 12: 3, 13: 3, 14: 2, 15: 2, 18: 2, 20: len(REFVALS)}


def _write_read(m, before, path, zipped, name):
    w = call((mx.zip_model if zipped else mx.write_model), m, path)
    if not check(w[0] == "ok", "writing (%s) raised" % ("zip" if zipped else "dir"), lambda: w):
        return None
    r = call(mx.read_model, path, name=name)
    if not check(r[0] == "ok", "a model written without error (%s) cannot be read back" % ("zip" if zipped else "dir"), lambda: r):
        return None
    with notrace():
        ctx.models.append(r[1])
        d1 = diff(before, describe(r[1]))
    if not check(d1 is None, "read model (%s) differs from the written one" % ("zip" if zipped else "dir"), lambda: d1):
        return None
    return r[1]


@harness
def roundtrip(f1: int, v1: int, f2: int, v2: int, chain: bool) -> bool:
    f1, f2, chain = pick(f1, 0, len(FEATURES) - 1), pick(f2, 0, len(FEATURES) - 1), pickb(chain)
    v1 = pick(v1, 0, NVAR.get(f1, 1) - 1)
    v2 = pick(v2, 0, min(NVAR.get(f2, 1), 3) - 1) if f2 != f1 else 0
    feats = {f1: v1}
    feats.setdefault(f2, v2)
    label("features %s chain=%s" % (["%s[%d]" % (FEATURES[k], v) for k, v in sorted(feats.items())], chain))
    base = _os.path.join(_os.environ.get("VERIF_SCRATCH", "/tmp"), "c04_%d" % _os.getpid())
    with notrace():
        _sh.rmtree(base, ignore_errors=True)
        _os.makedirs(base)
    try:
        with notrace():
            m = build(feats, "W")
            before = describe(m)
        pd, pz = _os.path.join(base, "m1"), _os.path.join(base, "m1.zip")
        md = _write_read(m, before, pd, False, "RD")
        if md is None:
            return False
        label("written to a directory and read back: descriptions equal")
        if chain or TIER != "quick":
            mz = _write_read(m, before, pz, True, "RZ")
            if mz is None:
                return False
        else:                      # quick, single feature: the zip is written and its member list compared; it is read in the chain partitions
            mz = None
            w = call(mx.zip_model, m, pz)
            if not check(w[0] == "ok", "writing (zip) raised", lambda: w):
                return False
        with notrace():
            d0 = diff(before, describe(m))
            la, lb = listing_dir(pd), listing_zip(pz)
        if not check(d0 is None, "writing altered the model", lambda: d0):
            return False
        if not check(la == lb, "directory and zip hold the same files", lambda: (la, lb)):
            return False
        for t in (2,):
            va, vb = _values(m, t), _values(md, t)
            vc = _values(mz, t) if mz is not None else vb
            for key in sorted(va):
                if not check(key in vb and same_outcome(va[key], vb[key]) and key in vc and same_outcome(va[key], vc[key]),
                             "value %s(%d) after round trip" % (key, t), lambda: (va[key], vb.get(key), vc.get(key))):
                    return False
        if chain:
            m3 = _write_read(md, before, _os.path.join(base, "m3.zip"), True, "R3")      # dir -> zip
            if m3 is None:
                return False
            m4 = _write_read(mz, before, _os.path.join(base, "m4"), False, "R4")         # zip -> dir
            if m4 is None:
                return False
        return True
    finally:
        with notrace():
            _sh.rmtree(base, ignore_errors=True)


POOL = ["A", "AB", "B", "A_B"]
TIER = _os.environ.get("VERIF_TIER", "quick")


@harness
def relpath(a0: int, a1: int, a2: int, na: int, b0: int, b1: int, b2: int, nb: int) -> bool:
    """abs_to_rel / rel_to_abs (and the tuple forms) are inverse on dotted paths over a pool with prefix-related names."""
    from modelx.core.util import abs_to_rel, rel_to_abs, abs_to_rel_tuple, rel_to_abs_tuple
    na, nb = pick(na, 1, 3), pick(nb, 1, 3)
    tgt = tuple(POOL[pick(x, 0, 3)] for x in (a0, a1, a2)[:na])
    ns = tuple(POOL[pick(x, 0, 3)] for x in (b0, b1, b2)[:nb])
    label("target %s namespace %s" % (".".join(tgt), ".".join(ns)))
    rt = rel_to_abs_tuple(abs_to_rel_tuple(tgt, ns), ns)
    if not check(rt == tgt, "tuple form round trip", lambda: (tgt, ns, abs_to_rel_tuple(tgt, ns), rt)):
        return False
    rs = rel_to_abs(abs_to_rel(".".join(tgt), ".".join(ns)), ".".join(ns))
    return check(rs == ".".join(tgt), "string form round trip", lambda: (tgt, ns, abs_to_rel(".".join(tgt), ".".join(ns)), rs))


NF = len(FEATURES)


def _parts(tier, seed):
    if tier == "quick":
        ps = []
        for f in range(NF):
            n = NVAR.get(f, 1)
            for lo in range(0, n, 3):
                ps.append(dict(f1=f, f2=f, v2=0, chain=False, v1=[lo, min(lo + 2, n - 1)]))
        ps += [dict(f1=a, f2=b, v2=0, v1=0, chain=True) for (a, b) in ((1, 14), (11, 12), (13, 21), (15, 18), (17, 19), (10, 20), (16, 2), (22, 23), (3, 5), (24, 17), (24, 18), (18, 19), (18, 14))]
        return ps
    return [dict(f1=a, f2=[lo, min(lo + 3, NF - 1)]) for a in range(NF) for lo in range(0, NF, 4)]


QUERIES = [
    Query("roundtrip", roundtrip, pre=["0 <= f1 < %d" % NF, "0 <= v1 < 10", "0 <= f2 < %d" % NF, "0 <= v2 < 3"],
          partitions=_parts,
          natives=[dict(f1=a, v1=v, f2=b, v2=1, chain=c) for (a, v, b, z, c) in
                   ((0, 0, 0, False, False), (1, 0, 14, True, True), (6, 1, 7, False, True), (8, 1, 9, True, False), (10, 4, 20, False, False), (11, 0, 12, True, False),
                    (13, 1, 21, False, True), (15, 0, 18, True, False), (15, 1, 18, False, False), (16, 0, 17, False, True), (19, 0, 22, True, False), (23, 0, 2, False, False),
                    (3, 0, 4, True, False), (5, 1, 10, False, False), (10, 8, 10, True, False), (10, 7, 0, False, False), (24, 0, 24, True, False), (24, 1, 24, True, True), (24, 2, 24, False, False), (18, 1, 19, False, False), (18, 0, 14, False, True))],
          bounds=lambda tier: {"features": FEATURES, "docs": DOCS, "ref_values": [k for k, _ in REFVALS], "modes": MODES, "containers": ["dir", "zip"],
                               "combination": "each feature alone with all its variants + 13 pairs with chains (quick) / all ordered pairs of features (thorough)", "each_path": "write dir + zip, read both, compare descriptions, listings, values for t = 2; chain: dir->zip and zip->dir second generation"},
          outside=["arbitrary documentation / source text (only the menus)", "numpy / pandas values", "serializer versions < 6", "Excel / IOSpec data (C18)"]),
    Query("relpath", relpath, pre=["0 <= a0 < 4", "0 <= a1 < 4", "0 <= a2 < 4", "1 <= na <= 3", "0 <= b0 < 4", "0 <= b1 < 4", "0 <= b2 < 4", "1 <= nb <= 3"],
          partitions=lambda tier, seed: [dict(na=a, nb=b) for a in (1, 2, 3) for b in (1, 2, 3) if tier != "quick" or a + b <= 5],
          natives=[dict(a0=0, a1=1, a2=2, na=3, b0=0, b1=1, b2=3, nb=3), dict(a0=1, a1=0, a2=0, na=1, b0=0, b1=0, b2=0, nb=2)],
          bounds=lambda tier: {"name_pool": POOL, "path_length": "1..3 each"},
          outside=["paths longer than 3", "names outside the pool"]),
]
BUDGET = {"quick": 420, "thorough": 1200}
