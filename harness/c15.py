"""C15 an exported package computes the same values as the model.  Corpus of models inside the documented export
subset (selector); export runs natively once per corpus entry (libcst is a compiled parser, nothing symbolic can enter
it); then BOTH the generated package and modelx are executed symbolically with all reference values unbounded symbolic
ints assigned on both sides, cells arguments from a small range.  The package is additionally imported in a subprocess in
which importing modelx is blocked (concrete default values) and scanned for modelx imports."""
from kit import *  # noqa
import os as _os
import sys as _sys
import re as _re
import json as _json
import shutil as _sh
import subprocess as _sp
import importlib as _il
use_formula_memo()

VALS = ["g", "x", "bx", "z", "k"]
DEFAULT = dict(g=10, x=1, bx=3, z=4, k=5)


def _base(m):
    m.g = DEFAULT["g"]
    S = m.new_space("S")
    S.x = DEFAULT["x"]
    S.new_cells("a", formula="lambda t: x + t + g")
    return S


def e_chain(m):
    S = _base(m)
    S.new_cells("b", formula="lambda t: a(t) + (b(t - 1) if t > 0 else 7)")
    S.new_cells("u", formula="lambda t: x - t", is_cached=False)
    S.new_cells("o", formula="lambda: b(2) + u(1) * 3")
    return [("S", "a", (1,)), ("S", "b", ("T",)), ("S", "u", ("T",)), ("S", "o", ())]


def e_syntax(m):
    S = _base(m)
    S.new_cells("c", formula="def c(t):\n    max = 5\n    def inner(q):\n        return q + x\n    f = lambda w: w * g\n    return inner(max) + f(t) + a(t)\n")
    S.new_cells("comp", formula="lambda t: sum([a(i) for i in range(t + 1)]) + sum(a(i) * 2 for i in range(2)) + len({i: x for i in range(2)})")
    S.new_cells("dflt", formula="lambda t, s=2: a(t) * s")
    S.new_cells("o", formula="lambda: dflt(1) + dflt(1, 3) + dflt(t=0, s=1)")
    return [("S", "c", ("T",)), ("S", "comp", ("T",)), ("S", "dflt", ("T",)), ("S", "o", ())]


def e_inherit(m):
    Base = m.new_space("Base")
    Base.bx = DEFAULT["bx"]
    Base.new_cells("bf", formula="lambda t: t + bx + g")
    Base.new_cells("bo", formula="lambda: bf(1) * 2")
    m.g = DEFAULT["g"]
    S = m.new_space("S", bases=Base)
    S.x = DEFAULT["x"]
    S.new_cells("a", formula="lambda t: x + t + g")
    S2 = m.new_space("S2", bases=Base)
    S2.bf.formula = "lambda t: 100 + t + bx"
    return [("S", "bf", ("T",)), ("S", "bo", ()), ("S2", "bf", ("T",)), ("S2", "bo", ()), ("Base", "bo", ())]


def e_items(m):
    S = _base(m)
    P = m.new_space("P", formula="lambda n, q=1: None")
    P.k = DEFAULT["k"]
    P.new_cells("h", formula="lambda t: n * t + k + q + g")
    P.new_cells("hh", formula="lambda t: h(t) + 1")
    PC = P.new_space("PC")
    PC.new_cells("pc", formula="lambda: n + q * 10")
    NP = P.new_space("NP", formula="lambda r: None")
    NP.new_cells("both", formula="lambda: n * 100 + r * 10 + g")
    S.P = P
    S.new_cells("o", formula="lambda t: P[1].hh(t) + P(2, 3).h(t) + P(2).PC.pc() + P[1].NP[t].both()")
    B = m.new_space("B", formula="lambda max, id=2: None")          # parameters named like built-ins
    B.new_cells("bf", formula="lambda t: max * t + id + len([t])")
    B.new_space("BC").new_cells("cf", formula="lambda: max + id * 10")
    BN = B.new_space("BN", formula="lambda r: None")                 # nested parametric space reading the OUTER built-in-named parameters
    BN.new_cells("bn", formula="lambda: max * 100 + id * 10 + r + len([r])")
    BN.new_space("BD").new_cells("bd", formula="lambda: ('big' if max > 3 else 'small') + str(id)")
    S.B = B
    S.new_cells("ob", formula="lambda t: B[3].bf(t) + B(4, 5).BC.cf() + B[3].BN[t].bn() + B(4, 5).BN[2].bn() + len(B[5].BN[1].BD.bd())")
    return [("S", "o", ("T",)), ("P", "h", ("T",), (1,)), ("P", "hh", ("T",), (2, 5)), ("S", "ob", ("T",)), ("B", "bf", ("T",), (7,))]


def e_refs(m):
    S = _base(m)
    Sub = S.new_space("Sub")
    Sub.z = DEFAULT["z"]
    Sub.new_cells("sc", formula="lambda: z + 1 + g")
    Other = m.new_space("Other")
    Other.k = DEFAULT["k"]
    Other.new_cells("oc", formula="lambda t: k * t")
    S.txt = "abc"
    S.flt = 2.0
    S.tup = (1, 2, (3,))
    S.osp = Other
    S.ocl = Other.oc
    S.new_cells("o", formula="lambda t: Sub.sc() + Sub.z + len(txt) + int(flt) + tup[2][0] + osp.oc(t) + ocl(t) + _space.a(t)")
    return [("S", "o", ("T",)), ("S.Sub", "sc", ())]


from c15types import Pct, Basis     # noqa: E402


def e_subclass_refs(m):
    S = _base(m)
    S.pct = Pct(0.5)
    S.basis = Basis.MONTHLY
    S.new_cells("grow", formula="lambda t: int(pct.factor() * 2) + t + x")
    S.new_cells("kind", formula="lambda: type(pct).__name__ + ':' + basis.name")
    S.new_cells("per", formula="lambda t: t * int(basis) + g")
    return [("S", "grow", ("T",)), ("S", "kind", ()), ("S", "per", ("T",))]


CORPUS = [("call chain, recursion, uncached", e_chain), ("nested def/lambda, local named max, comprehensions, defaults", e_syntax),
          ("inheritance and overriding", e_inherit), ("ItemSpaces with defaults, child and nested parametric space", e_items),
          ("literal, pickled and object-valued references, child space attribute", e_refs),
          ("references whose values are instances of subclasses of float / int (user class, IntEnum)", e_subclass_refs)]
_EXPORTED = {}


def _space(root, path):
    o = root
    for p in path.split("."):
        o = getattr(o, p)
    return o


def _set_vals(root, vals, exported):
    """Assign the (symbolic) reference values wherever the name is defined - same places on both sides."""
    def walk(sp):
        yield sp
        subs = sp._mx_spaces.values() if exported else sp.spaces.values()
        for c in subs:
            yield from walk(c)
    tops = root._mx_spaces.values() if exported else root.spaces.values()
    if exported:
        for n in VALS:
            if n in root.__dict__:
                setattr(root, n, vals[n])
        for top in tops:
            for sp in walk(top):
                for n in VALS:
                    if n in sp.__dict__:
                        setattr(sp, n, vals[n])
    else:
        for n in VALS:
            if n in root.refs:
                setattr(root, n, vals[n])
        for top in tops:
            for sp in walk(top):
                for n in VALS:
                    if n in sp._own_refs and not sp._get_object(n, as_proxy=True)._impl.is_derived():
                        setattr(sp, n, vals[n])


def _export(entry):
    """Build, export (once per process), statically scan, and run the package without modelx on the default values."""
    if entry in _EXPORTED:
        return _EXPORTED[entry]
    base = _os.path.join(_os.environ.get("VERIF_SCRATCH", "/tmp"), "c15_%d" % _os.getpid())
    _os.makedirs(base, exist_ok=True)
    pkg = "nomx_e%d_%d" % (entry, _os.getpid())
    m = mx.new_model("E%d" % entry)
    queries = CORPUS[entry][1](m)
    mx.export_model(m, _os.path.join(base, pkg))
    # static scan
    bad = []
    for root, _, files in _os.walk(_os.path.join(base, pkg)):
        for f in files:
            if f.endswith(".py") and _re.search(r"^\s*(import|from)\s+modelx\b", open(_os.path.join(root, f)).read(), _re.M):
                bad.append(f)
    # reference values from modelx itself, defaults
    want = {}
    for q in queries:
        for t in (0, 1, 2):
            want[_qkey(q, t)] = _eval_side(m, q, t, False)
    m.close()
    code = ("import sys, json\nsys.modules['modelx'] = None\nsys.path.insert(0, %r)\nimport %s as pkg\n"
            "sys.path.insert(0, %r)\nimport c15shared as c15\nout = {}\n"
            "for q in %r:\n    for t in (0, 1, 2):\n        out[c15._qkey(q, t)] = c15._eval_side(pkg.mx_model, tuple(q), t, True)\nprint('RESULT ' + json.dumps(out))\n"
            % (base, pkg, _os.path.dirname(_os.path.abspath(__file__)), [list(q) for q in queries]))
    # the helper functions are needed without modelx: run them from a stripped copy
    helper = _os.path.join(base, "c15shared.py")
    _sh.copyfile(_os.path.join(_os.path.dirname(_os.path.abspath(__file__)), "c15types.py"), _os.path.join(base, "c15types.py"))
    if not _os.path.exists(helper):
        src = open(_os.path.abspath(__file__)).read()
        start, end = src.index("# --- shared" + " with the modelx-free subprocess"), src.index("# --- end" + " shared")
        open(helper, "w").write(src[start:end])
    code = code.replace(repr(_os.path.dirname(_os.path.abspath(__file__))), repr(base))
    p = _sp.run([_sys.executable, "-c", code], capture_output=True, text=True, timeout=120)
    got = None
    for line in p.stdout.splitlines():
        if line.startswith("RESULT "):
            got = _json.loads(line[7:])
    nomx = "ok"
    if got is None:
        nomx = "package failed without modelx: " + (p.stderr[-600:] or p.stdout[-300:])
    else:
        for kq, v in want.items():
            if got.get(kq) != _json.loads(_json.dumps(v)):
                nomx = "value differs without modelx: %s: %r != %r" % (kq, got.get(kq), v)
                break
    _sys.path.insert(0, base) if base not in _sys.path else None
    mod = _il.import_module(pkg)
    cls = type(mod.mx_model)
    _EXPORTED[entry] = (queries, cls, bad, nomx)
    return _EXPORTED[entry]


# --- shared with the modelx-free subprocess
def _qkey(q, t):
    return "%s.%s%r%s" % (q[0], q[1], tuple(t if a == "T" else a for a in q[2]), "" if len(q) < 4 else "@%r" % (tuple(q[3]),))


def _eval_side(root, q, t, exported):
    sp = root
    for p in q[0].split("."):
        sp = getattr(sp, p)
    if len(q) > 3:
        sp = sp(*q[3])
    args = tuple(t if a == "T" else a for a in q[2])
    try:
        return ["ok", getattr(sp, q[1])(*args)]
    except Exception as e:
        name = type(e).__name__
        if name == "FormulaError":
            try:
                import modelx
                name = type(modelx.get_error()).__name__
            except Exception:
                pass
        return ["err", name]
# --- end shared


@harness
def export(g: int, x: int, bx: int, z: int, k: int, entry: int, t: int) -> bool:
    entry, t = pick(entry, 0, len(CORPUS) - 1), pick(t, 0, 2)
    label("corpus %d: %s, t=%d" % (entry, CORPUS[entry][0], t))
    vals = dict(g=g, x=x, bx=bx, z=z, k=k)
    with notrace():
        queries, cls, bad, nomx = _export(entry)
        m = new_model("L")
        CORPUS[entry][1](m)
        inst = cls()
    if not check(not bad, "exported package imports modelx", lambda: bad):
        return False
    if not check(nomx == "ok", "exported package, imported with modelx blocked, on the default values", lambda: nomx):
        return False
    _set_vals(m, vals, False)
    _set_vals(inst, vals, True)
    for q in queries:
        label("compare %s" % _qkey(q, t))
        a = _eval_side(m, q, t, False)
        reraise_control_last()
        b = _eval_side(inst, q, t, True)
        if not check(a[0] == b[0] and (eq(a[1], b[1])), "value %s: package == model" % _qkey(q, t), lambda: (a, b)):
            return False
        a2 = _eval_side(m, q, t, False)
        b2 = _eval_side(inst, q, t, True)
        if not check(a2[0] == b2[0] and eq(a2[1], b2[1]) and eq(a2[1], a[1]), "second evaluation (cached on both sides) %s" % _qkey(q, t), lambda: (a2, b2)):
            return False
    return True


def reraise_control_last():
    e = mx.get_error()
    if e is not None and not isinstance(e, Exception):
        raise e


NC = len(CORPUS)
QUERIES = [
    Query("export", export, pre=["0 <= entry < %d" % NC, "0 <= t <= 2"],
          partitions=lambda tier, seed: [dict(entry=e, t=t) for e in range(NC) for t in (0, 1, 2)],
          natives=[dict(DEFAULT, entry=e, t=t) for e in range(NC) for t in (1, 2)] + [dict(g=-3, x=7, bx=0, z=11, k=-1, entry=e, t=0) for e in range(NC)],
          bounds=lambda tier: {"corpus": [c[0] for c in CORPUS], "reference_values": "g, x, bx, z, k: unbounded symbolic ints on both sides", "cells_argument": "0..2",
                               "without_modelx": "each corpus entry imported in a subprocess with sys.modules['modelx'] = None, default values, t in 0..2"},
          outside=["pandas / Excel IO specs in the package", "models outside the documented export subset (relative references in ItemSpaces, coercion of scalar cells)",
                   "models outside the corpus entries"]),
]
BUDGET = {"quick": 420, "thorough": 1200}
