"""C01 memoisation is transparent.  DAG kit: node values, child/model refs are unbounded symbolic ints, the
dependency DAG (callee pointers, self-recursion switches) is symbolic, the request sequence (cells, argument,
spelling) is symbolic small-range data.  Oracle: plain recursion over the same parameters."""
from kit import *  # noqa
use_formula_memo()
import kit

N = 3
SPELL = 5


def request(d, q, t, s, defaults):
    c = d.cells[q]
    label("req c%d t=%d spelling=%d" % (q, t, s))
    if s == 0:
        return call(c, t)
    if s == 1:
        return call(c, t=t)
    if s == 2:
        return call(c.__getitem__, t)
    if s == 3:
        return call(c.__getitem__, (t,))
    if s == 4:
        if defaults[q] and t == 0:
            return call(c)                    # default omitted
        return call(c, *(t,))
    raise ValueError(s)


def _body(V, P1, P2, T, z, g, reqs, shapes, defaults, scalar):
    d = Dag(N, shapes=shapes, defaults=defaults)
    if scalar:
        with notrace():
            d.S.new_cells("top", formula="def top():\n    hit(9, 0)\n    return c%d(1) + 5\n" % (N - 1))
    d.bind(V, P1, P2, T, z, g)
    expect_hits = []
    for (q, t, s) in reqs:
        before = len(ctx.hits)
        r = request(d, q, t, s, defaults)
        if r[0] != "ok":
            return check(False, "request raised", r)
        if not check(r[1] == d.val(q, t), "value c%d(%d)" % (q, t), lambda: (r[1], d.val(q, t))):
            return False
        with notrace():
            for x in d.closure(q, t):
                if x not in expect_hits:
                    expect_hits.append(x)
            hits = list(ctx.hits)
            ok_runs = sorted(hits) == sorted(expect_hits)
        if not check(ok_runs, "formula runs == elements needed (each once, nothing extra)", lambda: (hits, expect_hits)):
            return False
        # same element through another spelling: same value, no new run
        r2 = request(d, q, t, (s + 1) % 4, defaults)
        if not check(r2[0] == "ok" and r2[1] == r[1], "other spelling same value", lambda: (r, r2)):
            return False
        if not check(len(ctx.hits) == len(hits), "other spelling re-ran a formula"):
            return False
    held = d.held()
    if not check(held == set(expect_hits), "held elements == executed elements", lambda: (held, expect_hits)):
        return False
    if scalar:
        n0 = len(ctx.hits)
        top = d.S.cells["top"]
        a = call(lambda: top.value)
        b = call(top)
        c = call(lambda: top[()])
        label("scalar .value/()/[()]")
        exp = d.val(N - 1, 1) + 5
        if not check(a[0] == "ok" and b[0] == "ok" and c[0] == "ok" and a[1] == exp and b[1] == exp and c[1] == exp,
                     "scalar spellings", lambda: (a, b, c, exp)):
            return False
        ran = [h for h in ctx.hits[n0:] if h[0] == 9]
        if not check(len(ran) == 1, "scalar cells ran once for three spellings", lambda: ctx.hits[n0:]):
            return False
    return True


@harness
def structure(v0: int, v1: int, v2: int, z: int, g: int, p1_1: int, p2_1: int, p1_2: int, p2_2: int,
              T0: bool, T1: bool, T2: bool, q1: int, t1: int, q2: int, t2: int) -> bool:
    q1, t1, q2, t2 = pick(q1, 0, 2), pick(t1, 0, TMAX), pick(q2, 0, 2), pick(t2, 0, TMAX)
    return _body([v0, v1, v2], [-1, p1_1, p1_2], [-1, p2_1, p2_2], [T0, T1, T2], z, g,
                 [(q1, t1, 0), (q2, t2, 2)], None, [False] * N, False)


@harness
def spellings(v0: int, v1: int, v2: int, z: int, g: int, dflt: bool, q1: int, t1: int, s1: int, s2: int) -> bool:
    """Chain c2 -> c1 -> c0 with self-recursion on c2; every ordered pair of spellings of two requests."""
    dflt, q1, t1, s1, s2 = pickb(dflt), pick(q1, 0, 2), pick(t1, 0, 1), pick(s1, 0, 4), pick(s2, 0, 4)
    return _body([v0, v1, v2], [-1, 0, 1], [-1, -1, 0], [False, False, True], z, g,
                 [(q1, t1, s1), (2, 1, s2)], None, [dflt] * N, True)


@harness
def shapes(v0: int, v1: int, v2: int, z: int, g: int, p1_1: int, p2_1: int, p1_2: int, p2_2: int,
           T2: bool, sh: int, dflt: bool, t1: int) -> bool:
    sh, dflt, t1 = pick(sh, 0, 5), pickb(dflt), pick(t1, 0, 1)
    label("shape %d default=%s" % (sh, dflt))
    return _body([v0, v1, v2], [-1, p1_1, p1_2], [-1, p2_1, p2_2], [False, False, T2], z, g,
                 [(N - 1, t1, 4)], [sh] * N, [dflt] * N, True)


SP2 = ["m2(a, b)", "m2(a, b=b)", "m2(a=a, b=b)", "m2(b=b, a=a)", "m2[a, b]", "m2[(a, b)]", "m2(a) / m2(a=a) with the default b", "from a formula: m2(b=y, a=x)", "from a formula: m2(x, y)"]


def _spell2(S, s, a, b):
    m2 = S.cells["m2"]
    if s == 0:
        return call(m2, a, b)
    if s == 1:
        return call(m2, a, b=b)
    if s == 2:
        return call(m2, a=a, b=b)
    if s == 3:
        return call(m2, b=b, a=a)
    if s == 4:
        return call(m2.__getitem__, (a, b))
    if s == 5:
        return call(lambda: m2[(a, b)])
    if s == 6:
        return call(m2, a) if b == 1 else call(m2, a=a, b=b)
    if s == 7:
        r = call(S.cells["viakw"], a, b)
        return r if r[0] != "ok" else ("ok", r[1] - 1000)
    if s == 8:
        r = call(S.cells["viapos"], a, b)
        return r if r[0] != "ok" else ("ok", r[1] - 2000)
    raise ValueError(s)


@harness
def binding(v: int, w: int, g: int, a: int, b: int, s1: int, s2: int, a2: int, b2: int, s3: int) -> bool:
    """Two-parameter cells with a default: every spelling that binds to the same arguments denotes the same element."""
    a, b, s1, s2, a2, b2 = pick(a, 0, 2), pick(b, 0, 2), pick(s1, 0, 8), pick(s2, 0, 8), pick(a2, 0, 2), pick(b2, 0, 2)
    s3 = (s1 + 4) % 9 if TIER == "quick" else pick(s3, 0, 8)
    with notrace():
        m = new_model("B")
        S = m.new_space("S")
        m.hit = hit
        m.g = 0
        S.v, S.w = 0, 0
        S.new_cells("m2", formula="def m2(a, b=1):\n    hit(a, b)\n    return v * a + w * b + a * 10 + b + g\n")
        S.new_cells("viakw", formula="lambda x, y: m2(b=y, a=x) + 1000")
        S.new_cells("viapos", formula="lambda x, y: m2(x, y) + 2000")
        S.v, S.w, m.g = v, w, g
    exp = lambda a_, b_: v * a_ + w * b_ + a_ * 10 + b_ + g
    seen = []
    for (aa, bb, ss) in ((a, b, s1), (a, b, s2), (a2, b2, s3)):
        label("%s with a=%d b=%d" % (SP2[ss], aa, bb))
        r = _spell2(S, ss, aa, bb)
        if not check(r[0] == "ok" and r[1] == exp(aa, bb), "value of m2(a=%d, b=%d)" % (aa, bb), lambda: (r, exp(aa, bb))):
            return False
        if (aa, bb) not in seen:
            seen.append((aa, bb))
        with notrace():
            runs = sorted(ctx.hits)
            held = sorted(dict(S.cells["m2"]))
        if not check(runs == sorted(seen), "one formula run per distinct argument binding", lambda: (runs, seen)):
            return False
        if not check(held == sorted(seen), "held elements == distinct argument bindings requested", lambda: (held, seen)):
            return False
    return True


@harness
def noneheld(v: int, nt: int, t: int, s1: int, s2: int) -> bool:
    """An element whose value is None (allow_none) is held like any other: second request, any spelling, no re-run."""
    nt, t, s1, s2 = pick(nt, 0, 2), pick(t, 0, 2), pick(s1, 0, 3), pick(s2, 0, 3)
    with notrace():
        m = new_model("NH")
        S = m.new_space("S")
        m.hit = hit
        S.allow_none = True
        S.v, S.nt = 0, -1
        S.new_cells("opt", formula="def opt(t):\n    hit(0, t)\n    return None if t == nt else v + t\n")
        S.new_cells("use", formula="def use(t):\n    hit(1, t)\n    o = opt(t)\n    return -1 if o is None else o\n")
        S.v, S.nt = v, nt
    opt = S.cells["opt"]
    exp = None if t == nt else v + t
    for i, sp in enumerate((s1, s2)):
        label("opt t=%d spelling %d (None at %d)" % (t, sp, nt))
        r = call(opt, t) if sp == 0 else call(opt, t=t) if sp == 1 else call(opt.__getitem__, t) if sp == 2 else call(S.cells["use"], t)
        want = exp if sp != 3 else (-1 if exp is None else exp)
        if not check(r[0] == "ok" and ((r[1] is None) if want is None else r[1] == want), "value of a possibly-None element", lambda: (r, want)):
            return False
        with notrace():
            runs = [h for h in ctx.hits if h[0] == 0]
        if not check(runs == [(0, t)], "formula of an element holding None ran again", lambda: runs):
            return False
    return True


_PRE = dag_pre(N)
_NAT = dict(v0=1, v1=2, v2=3, z=4, g=5, p1_1=0, p2_1=-1, p1_2=1, p2_2=0)


def _parts_structure(tier, seed):
    if tier == "quick":
        ps = product(q1=[0, 1, 2], t1=[0, 1], q2=[0, 1, 2])
    else:
        ps = product(q1=[0, 1, 2], t1=[0, 1, 2], q2=[0, 1, 2], t2=[0, 1, 2])
    return sorted(ps, key=lambda p: -(p["q1"] + p["q2"] + (2 if 2 in (p["q1"], p["q2"]) else 0)))   # heavy partitions first


QUERIES = [
    Query("structure", structure,
          pre=_PRE + ["0 <= q1 < 3", "0 <= q2 < 3", "0 <= t1 <= TMAX", "0 <= t2 <= TMAX"],
          partitions=_parts_structure,
          natives=[dict(_NAT, T0=True, T1=False, T2=True, q1=2, t1=1, q2=1, t2=1),
                   dict(v0=-1, v1=0, v2=7, z=0, g=0, p1_1=-1, p2_1=0, p1_2=0, p2_2=1, T0=False, T1=True, T2=False,
                        q1=0, t1=0, q2=2, t2=1)],
          bounds=lambda tier: {"cells": N, "out_degree": 2, "self_recursion": "symbolic per cells", "t_max": 1 if tier == "quick" else 2,
                               "requests": 2, "values": "unbounded int (v_k, z, g)", "dag_shapes": "all 36 pointer assignments x 8 recursion switches"},
          outside=["more than 3 cells / out-degree > 2", "non-integer values", "more than 2 requests per history"]),
    Query("spellings", spellings,
          pre=["0 <= q1 < 3", "0 <= t1 <= 1", "0 <= s1 < 5", "0 <= s2 < 5"],
          partitions=lambda tier, seed: product(s1=list(range(SPELL)), dflt=[False, True]),
          natives=[dict(v0=1, v1=2, v2=3, z=4, g=5, dflt=True, q1=1, t1=0, s1=4, s2=2)],
          bounds=lambda tier: {"spellings": ["c(t)", "c(t=t)", "c[t]", "c[(t,)]", "c() default omitted / c(*(t,))"], "pairs": "all 25 x 2 (default param or not)",
                               "scalar_cells_spellings": [".value", "()", "[()]"]},
          outside=["match()", "cells with more than one parameter"]),
    Query("binding", binding,
          pre=["0 <= a <= 2", "0 <= b <= 2", "0 <= s1 < 9", "0 <= s2 < 9", "0 <= a2 <= 2", "0 <= b2 <= 2", "0 <= s3 < 9"],
          partitions=lambda tier, seed: [dict(s1=k, b2=1, a2=[0, 1] if tier == "quick" else [0, 2], a=[1, 2] if tier == "quick" else [0, 2], b=[0, 1] if tier == "quick" else [0, 2]) for k in range(9)],
          natives=[dict(v=3, w=4, g=5, a=2, b=1, s1=x, s2=y, a2=1, b2=2, s3=z) for (x, y, z) in ((0, 3, 7), (6, 2, 4), (7, 5, 8), (3, 3, 3), (8, 6, 1))],
          bounds=lambda tier: {"cells": "def m2(a, b=1)", "spellings": SP2, "arguments": "a in 0..2, b in 0..2 (quick: b in 0..1)", "requests": "two spellings of the same arguments, then a third request",
                               "values": "v, w, g unbounded"},
          outside=["cells with more than two parameters", "*args / keyword-only parameters"]),
    Query("noneheld", noneheld, pre=["0 <= nt <= 2", "0 <= t <= 2", "0 <= s1 < 4", "0 <= s2 < 4"],
          partitions=lambda tier, seed: [dict(s1=k) for k in range(4)],
          natives=[dict(v=3, nt=1, t=1, s1=0, s2=3), dict(v=3, nt=1, t=1, s1=3, s2=1), dict(v=3, nt=2, t=1, s1=2, s2=0)],
          bounds=lambda tier: {"model": "opt(t) returns None at one symbolic t (allow_none), use(t) calls it", "spellings": ["opt(t)", "opt(t=t)", "opt[t]", "from a formula"], "t": "0..2"},
          outside=[]),
    Query("shapes", shapes,
          pre=_PRE + ["0 <= sh < 6", "0 <= t1 <= 1"],
          partitions=lambda tier, seed: product(sh=list(range(CALL_SHAPES)), dflt=[False, True]),
          natives=[dict(_NAT, T2=True, sh=s, dflt=bool(s % 2), t1=1) for s in range(CALL_SHAPES)],
          bounds=lambda tier: {"cells": N, "call_shapes": ["f(t)", "f(t=t)", "f[t]", "genexpr", "nested lambda", "_space.cells[name](t)"],
                               "default_param": [False, True], "t_max": 1},
          outside=["formula shapes outside the 6 call spellings x def/default"]),
]

import collections as _collections
PolicyKey = _collections.namedtuple("PolicyKey", "a b")
TK_SPELL = ["c(k)", "c[k]", "c(key=k)", "c.__getitem__(k) after `k in c`", "c[k] = w then c(k)"]


@harness
def tuplekey(v: int, w: int, a: int, b: int, s1: int, s2: int, two: bool) -> bool:
    """ONE argument that is an instance of a tuple subclass (a namedtuple used as a composite key): subscription must wrap
    it as a single argument exactly like the call does - same element, one run."""
    a, b, s1, s2, two = pick(a, 0, 1), pick(b, 0, 1), pick(s1, 0, 4), pick(s2, 0, 3), pickb(two)
    with notrace():
        m = new_model("TK")
        S = m.new_space("S")
        m.hit = hit
        S.v = 0
        if two:
            S.new_cells("pk", formula="def pk(key, loading=0):\n    hit(key.a, key.b)\n    return v * key.a + key.b + loading\n")
        else:
            S.new_cells("pk", formula="def pk(key):\n    hit(key.a, key.b)\n    return v * key.a + key.b\n")
        S.v = v
        k = PolicyKey(a, b)
    c = S.cells["pk"]
    exp = v * a + b
    assigned = False
    for i, sp in enumerate((s1, s2)):
        label("%s%s" % (TK_SPELL[sp], " (cells with a second, defaulted parameter)" if two else ""))
        if sp == 0:
            r = call(c, k)
        elif sp == 1:
            r = call(c.__getitem__, k)
        elif sp == 2:
            r = call(c, key=k)
        elif sp == 3:
            inside = call(c.__contains__, (k, 0) if two else k)       # Mapping view: keys are the FULL argument tuples (defaults filled in)
            if not check(inside[0] == "ok" and inside[1] == (i == 1), "`k in c` tells whether the element holds a value", lambda: inside):
                return False
            r = call(c.__getitem__, k)
        else:
            st = call(c.__setitem__, k, w)
            if not check(st[0] == "ok", "assigning through the composite key", lambda: st):
                return False
            assigned = True
            r = call(c, k)
        want = w if assigned else exp
        if not check(r[0] == "ok" and r[1] == want, "value of the element of the composite key", lambda: (r, want)):
            return False
        with notrace():
            runs = list(ctx.hits)
            held = len(c)
        if not check(runs == ([] if assigned else [(a, b)]), "formula runs for one composite key (at most once, never after an assignment)", lambda: runs):
            return False
        if not check(held == 1, "exactly one element exists for the one key", lambda: held):
            return False
    return True


QUERIES.append(
    Query("tuplekey", tuplekey, pre=["0 <= a <= 1", "0 <= b <= 1", "0 <= s1 < 5", "0 <= s2 < 4"],
          partitions=lambda tier, seed: [dict(s1=s_, two=t_) for s_ in range(5) for t_ in (False, True)],
          natives=[dict(v=7, w=99, a=1, b=0, s1=s_, s2=s2_, two=t_) for (s_, s2_, t_) in ((0, 1, False), (1, 0, True), (0, 1, True), (2, 3, False), (4, 1, True), (3, 2, False))],
          bounds=lambda tier: {"key": "namedtuple PolicyKey(a, b), a, b in {0,1}", "spellings": TK_SPELL, "cells": ["pk(key)", "pk(key, loading=0)"], "values": "v, assigned w: unbounded symbolic ints"},
          outside=["other tuple subclasses", "composite keys on ItemSpaces"]))
BUDGET = {"quick": 400, "thorough": 1200}


import os as _os
TIER = _os.environ.get("VERIF_TIER", "quick")
TMAX = _T = 1 if _os.environ.get("VERIF_TIER", "quick") == "quick" else 2
for _q in QUERIES:
    _q.pre = [p.replace("TMAX", str(_T)) for p in _q.pre]
