"""C09 the cached flag never changes any result.  (1) rich kit: every assignment of the flag to five cells (mask
symbolic), C02-style history, compared with a fresh ALL-CACHED model that only saw the edits; (2) DAG kit: mask, two
requests and a flag flip in between - values equal the oracle, uncached cells hold nothing and run once per call."""
from rich import *  # noqa
import os as _os

FLAG_CELLS = ["a", "b", "u", "ua", "o_cell"]
N = 3


@harness
def flags_rich(g: int, h: int, bx: int, x: int, y: int, sh: int, z: int, k: int, mask: int, i1: int, v1: int, pre: bool) -> bool:
    mask, e1, pre = pick(mask, 0, 31), ORDER9[pick(i1, 0, len(ORDER9) - 1)], pickb(pre)
    flags = {n: not (mask >> i) & 1 for i, n in enumerate(FLAG_CELLS)}
    label("uncached=%s" % [n for n in FLAG_CELLS if not flags[n]])
    vals = dict(g=g, h=h, bx=bx, x=x, y=y, sh=sh, z=z, k=k)
    live = Rich(vals, "L", flags=flags)
    fresh = Rich(vals, "F", flags={n: True for n in FLAG_CELLS + ["u", "ua", "uu"]})
    if pre:
        label("eval all")
        live.observe()
    if (e1 == 7 and not flags["a"]) or (e1 == 8 and not flags["b"]):
        return True          # values can only be assigned to cached cells (documented ValueError): not a flag-transparency case
    label("edit[%d] %s" % (e1, EDITS[e1][0]))
    r1, r2 = apply_edit(live, e1, v1), apply_edit(fresh, e1, v1)
    if not check(r1[0] == r2[0], "edit accepted alike", lambda: (r1, r2)):
        return False
    a, b = live.observe(), fresh.observe()
    for n in OBSERVERS:
        if not check(same_outcome(a[n], b[n]), n, lambda: (a[n], b[n])):
            return False
    with notrace():
        S = live.m.spaces[live.sname()]
        empty = all(len(S.cells[n]) == 0 for n in FLAG_CELLS if n in S.cells and not S.cells[n].is_cached)
    return check(empty, "uncached cells hold no values")


@harness
def flags_dag(v0: int, v1: int, v2: int, z: int, g: int, z2: int, g2: int, p1_1: int, p2_1: int, p1_2: int, p2_2: int, T2: bool,
              mask: int, q1: int, t1: int, kf: int, q2: int, t2: int, zr: int, inw: int) -> bool:
    mask, q1, t1, kf, q2, t2, zr = pick(mask, 0, 7), pick(q1, 0, 2), pick(t1, 0, 1), pick(kf, -1, 2), pick(q2, 0, 2), pick(t2, 0, 1), pick(zr, 0, 2)
    cached = [not (mask >> k) & 1 for k in range(N)]
    label("uncached=%s" % [k for k in range(N) if not cached[k]])
    zreaders = ([True] * N, [True, False, False], [False, True, False])[zr]     # who reads Sub.z: everybody / only c0 / only c1
    label("Sub.z read by %s" % ("every cells", "c0 only", "c1 only")[zr])
    d = Dag(N, cached=cached, zreaders=zreaders)
    with notrace():
        d.S.new_cells("ul", formula="lambda lst: len(lst) + v0", is_cached=False)
    d.bind([v0, v1, v2], [-1, p1_1, p1_2], [-1, p2_1, p2_2], [False, False, T2], z, g)
    done = []
    for step, (q, t) in enumerate(((q1, t1), (q2, t2))):
        label("req c%d(%d)" % (q, t))
        n0 = len(ctx.hits)
        r = call(d.cells[q], t)
        if not check(r[0] == "ok" and r[1] == d.val(q, t), "value equals the oracle under this flag assignment", lambda: r):
            return False
        runs = _runs(d, q, t, done)
        with notrace():
            ok = sorted(ctx.hits[n0:]) == sorted(runs)
            held = d.held()
            okheld = held == set(done) and all(len(d.cells[k]) == 0 for k in range(N) if not d.cached[k])
        if not check(ok, "cached elements run once, uncached cells run on every call", lambda: (ctx.hits[n0:], runs)):
            return False
        if not check(okheld, "held == cached elements evaluated; uncached hold nothing", lambda: (held, done)):
            return False
        if step == 0 and kf >= 0:
            label("flip is_cached of c%d" % kf)
            d.cells[kf].is_cached = not d.cached[kf]
            d.cached[kf] = not d.cached[kf]
            with notrace():
                done = [x for x in d.held()]      # whatever survived the flip is what the oracle continues from
                sane = all(x[0] != kf for x in done)
            if not check(sane, "flipping the flag discards the cells' own values"):
                return False
            if d.cached[kf]:
                # now cached: a value assigned to it must reach every value computed through it while it was uncached
                label("input c%d[%d] = w after the flip" % (kf, t1))
                d.cells[kf][t1] = inw
                d.inputs[(kf, t1)] = inw
                with notrace():
                    done = [x for x in d.held()]
    # ---- a reference every cells reads through an attribute path (Sub.z) and one read by name (g) change:
    #      invalidation must reach every held value computed through any chain of uncached cells
    for which in (0, 1):
        label("edit %s" % ("Sub.z" if which == 0 else "g"))
        if which == 0:
            d.Sub.z = z2
            d.z = z2
        else:
            d.m.g = g2
            d.g = g2
        for (q, t) in ((q1, t1), (q2, t2)):
            r = call(d.cells[q], t)
            if not check(r[0] == "ok" and r[1] == d.val(q, t), "value after changing %s under this flag assignment" % ("Sub.z" if which == 0 else "g"), lambda: (r, d.val(q, t))):
                return False
    r = call(d.S.cells["ul"], [1, 2, 3])
    return check(r[0] == "ok" and r[1] == 3 + v0, "uncached cells accept an unhashable argument", lambda: r)


@harness
def unhashable(v: int, n: int, via: int) -> bool:
    """An uncached cells called with an unhashable argument (a list): values, and - when its formula raises - the caller gets
    the FormulaError carrying the formula's own exception, directly and through a cached caller; nothing is left executing."""
    n, via = pick(n, 0, 3), pick(via, 0, 2)
    with notrace():
        m = new_model("UH")
        S = m.new_space("S")
        S.v = v
        S.new_cells("ulf", formula="lambda lst: v + 6 // (len(lst) - 2)", is_cached=False)       # fails for a list of two
        S.new_cells("culf", formula="lambda k: ulf(list(range(k))) + 1")
        S.new_cells("uulf", formula="lambda k: ulf(list(range(k))) + 2", is_cached=False)
    label("list of %d through %s" % (n, ("a direct call", "a cached caller", "another uncached cells")[via]))
    for rep in range(2):
        r = call(S.cells["ulf"], list(range(n))) if via == 0 else call(S.cells["culf"], n) if via == 1 else call(S.cells["uulf"], n)
        if n == 2:
            if not check(r[0] == "err" and r[1] == "ZeroDivisionError", "a failing uncached call with an unhashable argument reports the formula's own exception", lambda: r):
                return False
            with notrace():
                e = mx.get_error()
                oke = type(e).__name__ == "ZeroDivisionError"
            if not check(oke and executor_idle(), "get_error() is the original exception and nothing is left executing"):
                return False
        else:
            want = v + 6 // (n - 2) + (0, 1, 2)[via]
            if not check(r[0] == "ok" and r[1] == want, "value through an unhashable argument", lambda: (r, want)):
                return False
    with notrace():
        empty = len(S.cells["ulf"]) == 0 and len(S.cells["uulf"]) == 0
    return check(empty, "uncached cells hold nothing")


def _runs(d, q, t, done):
    """Formula executions caused by requesting (q,t): list with multiplicity; updates `done` (cached elements held)."""
    out = []

    def run(k, tt):
        if d.cached[k] and (k, tt) in done:
            return
        out.append((k, tt))
        for c in d.calls(k, tt):
            run(*c)
        if d.cached[k]:
            done.append((k, tt))
    run(q, t)
    return out


ORDER9 = [0, 1, 2, 3, 7, 9, 12, 13, 14, 24, 29, 23, 5, 27, 28, 36, 40]
_V = dict(g=10, h=20, bx=3, x=1, y=2, sh=30, z=4, k=5)
_NAT = dict(v0=1, v1=2, v2=3, z=4, g=5, z2=40, g2=50, p1_1=0, p2_1=-1, p1_2=1, p2_2=0, T2=True)
QUICK = _os.environ.get("VERIF_TIER", "quick") == "quick"


def _parts_rich(tier, seed):
    if tier == "quick":
        return [dict(mask=[lo, lo + 3], i1=[0, 4], pre=True) for lo in range(0, 32, 4)] + \
            [dict(mask=m, i1=[5, len(ORDER9) - 1], pre=True) for m in (1, 4, 8, 12, 16, 31)]
    return [dict(mask=m, i1=[lo, min(lo + 4, len(ORDER9) - 1)]) for m in range(32) for lo in range(0, len(ORDER9), 5)]


def _parts_dag(tier, seed):
    if tier == "quick":
        return product(mask=list(range(8)), q1=[2], t1=[1], kf=[-1, 1], t2=[1], zr=[0]) + product(mask=list(range(8)), q1=[2], t1=[1], kf=[-1], t2=[1], zr=[1])
    return product(mask=list(range(8)), q1=[2, 1], t1=[1, 0], kf=[-1, 0, 1, 2])


QUERIES = [
    Query("flags_rich", flags_rich, pre=["0 <= mask < 32", "0 <= i1 < %d" % len(ORDER9)], partitions=_parts_rich,
          natives=[dict(_V, mask=m, i1=i, v1=77, pre=True) for (m, i) in ((0, 0), (31, 1), (12, 1), (3, 4), (16, 6), (31, 11), (5, 13), (8, 3), (0, 15), (4, 15), (0, 16))],
          bounds=lambda tier: {"flag_cells": FLAG_CELLS, "assignments": "all 32", "edits": [EDITS[e][0] for e in ORDER9],
                               "history": "[eval all]? ; edit(v) ; observe all; compared with a fresh all-cached model that only saw the edit"},
          outside=["flags on cells outside the five", "histories of more than one edit (C02 covers pairs with the default flags)"]),
    Query("flags_dag", flags_dag,
          pre=dag_pre(N) + ["0 <= mask < 8", "0 <= q1 < 3", "0 <= t1 <= 1", "-1 <= kf < 3", "0 <= q2 < 3", "0 <= t2 <= 1", "0 <= zr <= 2"],
          partitions=_parts_dag,
          natives=[dict(_NAT, inw=500, mask=m, q1=2, t1=1, kf=kf, q2=q2, t2=1, zr=zr) for (m, kf, q2, zr) in ((0, -1, 1, 0), (2, 1, 2, 1), (7, 0, 2, 2), (5, 2, 0, 0), (1, 1, 1, 1), (3, -1, 2, 1), (6, -1, 2, 2))] + [dict(_NAT, inw=500, p2_2=-1, mask=3, q1=2, t1=1, kf=-1, q2=2, t2=1, zr=1), dict(_NAT, inw=500, p2_2=-1, mask=2, q1=2, t1=1, kf=1, q2=2, t2=1, zr=0)],
          bounds=lambda tier: {"cells": N, "masks": "all 8", "requests": 2, "flag_flip_between": "none or one cells", "then": "Sub.z (attribute path) and g (by name) re-assigned, both requests repeated", "dag": "pointers symbolic"},
          outside=["N > 3"]),
]
QUERIES.append(
    Query("unhashable", unhashable, pre=["0 <= n <= 3", "0 <= via <= 2"],
          partitions=lambda tier, seed: [dict(via=v_) for v_ in range(3)],
          natives=[dict(v=7, n=n_, via=v_) for n_ in (0, 2, 3) for v_ in (0, 1, 2)],
          bounds=lambda tier: {"argument": "lists of length 0..3 (length 2 makes the formula raise ZeroDivisionError)", "callers": ["direct", "cached cells", "uncached cells"], "value": "unbounded symbolic int", "repeats": 2},
          outside=["other unhashable types"]))
BUDGET = {"quick": 420, "thorough": 1200}
