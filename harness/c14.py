"""C14 saving never loses the last good save; failed saves and loads leave no residue.
Query `rotation`: serialize._increment_backups executed on a SYMBOLIC file-system state (existence, kind and generation
number of <p>, <p>_BAK1..4 are symbolic) through a dict-backed pathlib/shutil layer - one inductive step from an
arbitrary state, so sequences of saves of any length are covered.
Query `faults`: the real write_model / zip_model / read_model on a scratch directory with a symbolic fault index: the
k-th file-system / archive / pickling operation raises OSError."""
from kit import *  # noqa
import os as _os
import shutil as _sh
import zipfile as _zf
import pathlib as _pl
import pickle as _pk
import types as _types

use_formula_memo()


# ------------------------------------------------------------------------------------------- query A
class FakeFS:
    def __init__(self, ex, isdir, gen):
        self.ex, self.isdir, self.gen = list(ex), list(isdir), list(gen)
        self.log = []

    def idx(self, s):
        if s == "/p":
            return 0
        assert s.startswith("/p_BAK")
        return int(s[len("/p_BAK"):])


def _fake_modules(fs):
    class P:
        def __init__(self, s):
            self.s = str(s)

        def __str__(self):
            return self.s

        def exists(self):
            return fs.ex[fs.idx(self.s)]

        def is_dir(self):
            i = fs.idx(self.s)
            return fs.ex[i] and fs.isdir[i]

        def is_file(self):
            i = fs.idx(self.s)
            return fs.ex[i] and not fs.isdir[i]

        def unlink(self):
            i = fs.idx(self.s)
            if not fs.ex[i] or fs.isdir[i]:
                raise OSError("unlink of a directory / missing file")
            fs.ex[i] = False

        def rename(self, other):
            i, j = fs.idx(self.s), fs.idx(str(other))
            if not fs.ex[i]:
                raise FileNotFoundError(self.s)
            if fs.ex[j] and (fs.isdir[j] or fs.isdir[i]):
                raise OSError("rename onto an existing directory")       # POSIX: only file-over-file replaces silently
            fs.ex[j], fs.isdir[j], fs.gen[j] = True, fs.isdir[i], fs.gen[i]
            fs.ex[i] = False
            return other

    def rmtree(p):
        i = fs.idx(str(p))
        if not (fs.ex[i] and fs.isdir[i]):
            raise OSError("rmtree of a non-directory")
        fs.ex[i] = False
    return _types.SimpleNamespace(Path=P), _types.SimpleNamespace(rmtree=rmtree)


@harness
def rotation(e0: bool, e1: bool, e2: bool, e3: bool, e4: bool, d0: bool, d1: bool, d2: bool, d3: bool, d4: bool,
             g0: int, g1: int, g2: int, g3: int, g4: int, backup: bool) -> bool:
    import modelx.serialize as ser
    ex, isd, gen = [e0, e1, e2, e3, e4], [d0, d1, d2, d3, d4], [g0, g1, g2, g3, g4]
    fs = FakeFS(ex, isd, gen)
    fp, fsh = _fake_modules(fs)
    real = (ser.pathlib, ser.shutil)
    ser.pathlib, ser.shutil = fp, fsh
    try:
        r = call(ser._increment_backups, None, fp.Path("/p"), ser.DEFAULT_MAX_BACKUPS if backup else 0)
    finally:
        ser.pathlib, ser.shutil = real
    label("rotation backup=%s" % ("on" if pickb(backup) else "off"))
    if not check(r[0] == "ok", "_increment_backups raised on a reachable state", lambda: r):
        return False
    if not check(not fs.ex[0], "<p> is free for the new save"):
        return False
    if backup:
        # length of the contiguous run of existing entries starting at <p>
        run = 0
        while run < 4 and ex[run]:
            run += 1
        for j in range(1, 5):
            if j <= run and j <= 3:        # shifted by one, order and kind preserved
                if not check(fs.ex[j] and fs.gen[j] == gen[j - 1] and fs.isdir[j] == isd[j - 1], "generation shifted to _BAK%d in order" % j):
                    return False
            elif j > run or j == 4:        # beyond the run: untouched
                if not check(fs.ex[j] == ex[j] and (not ex[j] or (fs.gen[j] == gen[j] and fs.isdir[j] == isd[j])), "entry _BAK%d untouched" % j):
                    return False
        return True
    for j in range(1, 5):
        if not check(fs.ex[j] == ex[j] and (not ex[j] or (fs.gen[j] == gen[j] and fs.isdir[j] == isd[j])), "without backups nothing but <p> changes (_BAK%d)" % j):
            return False
    return True


# ------------------------------------------------------------------------------------------- query B
class Faults:
    def __init__(self):
        self.armed = False
        self.count = 0
        self.fail_at = -1
        self.fired = None
        self.ops = []
        self.kind = False          # False: OSError; True: a BaseException that is no Exception (like KeyboardInterrupt)

    def tick(self, name):
        if not self.armed:
            return
        self.count += 1
        with notrace():
            self.ops.append(name)
        if self.count == self.fail_at:          # symbolic comparison: the solver walks through every operation
            with notrace():
                self.fired = "%s (#%d)" % (name, self.count)
            if self.kind:
                raise Boom("interrupt (not an Exception subclass) at operation %s" % name)
            raise OSError("injected fault at operation %s" % name)


FAULTS = Faults()
_installed = []


def _wrap(owner, name, label_):
    orig = owner.__dict__[name] if isinstance(owner, type) else getattr(owner, name)
    raw = orig.__func__ if isinstance(orig, (classmethod, staticmethod)) else orig

    def w(*a, **k):
        FAULTS.tick(label_)
        return raw(*a, **k)
    w.__name__ = getattr(raw, "__name__", name)
    setattr(owner, name, w)
    _installed.append((owner, name, orig))


def install_faults():
    if _installed:
        return
    import modelx.serialize.custom_pickle as cp
    for n in ("open", "mkdir", "rename", "unlink"):
        _wrap(_pl.Path, n, "Path." + n)
    for n in ("move", "rmtree", "copyfile"):
        _wrap(_sh, n, "shutil." + n)
    for n in ("__init__", "writestr", "write"):
        _wrap(_zf.ZipFile, n, "ZipFile." + n)
    for cls in (cp.ModelPickler, cp.IOSpecPickler):
        def dump(self, obj, _base=_pk.Pickler.dump, _n=cls.__name__):
            FAULTS.tick(_n + ".dump")
            return _base(self, obj)
        cls.dump = dump


CORPUS = ["tiny (space, pickled + literal refs, cells with input)", "nested spaces, inheritance, ItemSpace input, object reference, docs",
          "two top-level spaces with data files, uncached cells, model-level pickled reference"]


def _mk(gen, tag, corpus=0):
    """Corpus: models whose content identifies their generation (A.gen, A.tup, A.f[1], A.f(2))."""
    m = new_model(tag)
    A = m.new_space("A")
    A.gen = gen
    A.tup = (gen, "x")                      # pickled value
    A.new_cells("f", formula="lambda t: t + gen")
    A.f[1] = 100 + gen                      # input -> data file
    if corpus == 1:
        m.doc = "generation %d" % gen
        Ch = A.new_space("Ch")
        Ch.new_cells("g", formula="lambda: gen * 2")
        Ch.g.doc = "doc"
        B = m.new_space("B", bases=A)
        B.new_cells("own", formula="lambda t: f(t) + 1")
        P = m.new_space("P", formula="lambda n: None")
        P.new_cells("h", formula="lambda t: n * t")
        P[1].h[3] = gen
        A.oref = Ch
    elif corpus == 2:
        m.big = {"k": [gen, gen + 1]}
        C = m.new_space("C")
        C.new_cells("u", formula="lambda t: t - 1", is_cached=False)
        C.new_cells("c", formula="lambda t: u(t) * 2")
        C.c[0] = gen
        C.c[5] = gen + 5
    return m


def _gen_of(path):
    """Generation stored at `path` (None when unreadable / absent).  Observation only: runs untraced."""
    if not _os.path.exists(path):
        return "absent"
    before = set(mx.get_models())
    try:
        m = mx.read_model(path, name="OBS")
    except Exception as e:
        return "unreadable:%s" % type(e).__name__
    try:
        return ("gen", m.A.gen, m.A.tup[0], m.A.f[1] - 100, m.A.f(2) - 2)
    finally:
        m.close()
        for n in set(mx.get_models()) - before:
            mx.get_models()[n].close()


@harness
def faults(fail_at: int, zipped: bool, phase: int, older: bool, corpus: int, fail_at2: int, intr: bool) -> bool:
    zipped, phase, older, corpus, intr = pickb(zipped), pick(phase, 0, 2), pickb(older), pick(corpus, 0, 2), pickb(intr)
    install_faults()
    base = _os.path.join(_os.environ.get("VERIF_SCRATCH", "/tmp"), "c14_%d" % _os.getpid())
    p = _os.path.join(base, "m.zip" if zipped else "m")
    save = mx.zip_model if zipped else mx.write_model
    label("%s, corpus %d, fault in %s%s" % ("zip" if zipped else "dir", corpus, ("save", "load", "two consecutive saves")[phase], ", older generation present" if older else ""))
    FAULTS.armed, FAULTS.count, FAULTS.fired, FAULTS.ops, FAULTS.kind = False, 0, None, [], intr
    if intr:
        label("the fault is an interrupt (BaseException)")
    try:
        with notrace():
            _sh.rmtree(base, ignore_errors=True)
            _os.makedirs(base)
            if older:
                m0 = _mk(0, "G0", corpus)
                save(m0, p)
            m1 = _mk(1, "G1", corpus)
            save(m1, p)                       # last good save: generation 1
            m2 = _mk(2, "G2", corpus)
            registry = sorted(mx.get_models())
        FAULTS.fail_at = fail_at
        FAULTS.armed = True
        if phase in (0, 2):
            r = call(save, m2, p)
            if phase == 2:
                # a second faulted attempt right after the first (whatever its outcome)
                first_ok = r[0] == "ok"
                FAULTS.count, FAULTS.fail_at = 0, fail_at2
                r = call(save, m2, p)
                if first_ok and r[0] == "err":
                    r = ("err2", r[1], r[2])     # generation 2 was completely written before: it is the last good save now
        else:
            r = call(mx.read_model, p, name="LOADED")
        FAULTS.armed = False
        with notrace():
            fired = FAULTS.fired
            label("fault at %s of %d operations -> %s" % (fired, FAULTS.count, "raised" if r[0] == "err" else "completed"))
            ser_flag = mx.core.mxsys.serializing
            io_flag = mx.core.mxsys.iomanager.serializing
        if not check(ser_flag is None and not io_flag, "serializing flags reset", lambda: (ser_flag, io_flag)):
            return False
        if phase == 1:
            with notrace():
                now = sorted(mx.get_models())
                if r[0] == "ok":
                    ctx.models.append(r[1])
            if r[0] == "err":
                if not check(now == registry, "a failed load left a model registered", lambda: (registry, now)):
                    return False
            with notrace():
                g = _gen_of(p)
            if not check(g == ("gen", 1, 1, 1, 1), "a load (failed or not) must not damage the saved model", lambda: g):
                return False
        else:
            with notrace():
                gp, gb1, gb2 = _gen_of(p), _gen_of(p + "_BAK1"), _gen_of(p + "_BAK2")
                valid_zip = True
                if zipped and _os.path.exists(p):
                    valid_zip = _os.path.isfile(p) and _zf.is_zipfile(p) and _zf.ZipFile(p).testzip() is None
            good1, good2, good0 = ("gen", 1, 1, 1, 1), ("gen", 2, 2, 2, 2), ("gen", 0, 0, 0, 0)
            if r[0] == "ok" and phase == 0:
                if not check(gp == good2 and gb1 == good1, "successful save: new copy at <p>, previous at _BAK1", lambda: (gp, gb1)):
                    return False
                if older and not check(gb2 == good0, "older generation kept in order at _BAK2", lambda: gb2):
                    return False
            elif r[0] == "ok":
                if not check(gp == good2 and good1 in (gb1, gb2), "second save succeeded: generation 2 at <p>, generation 1 still among the backups", lambda: (gp, gb1, gb2)):
                    return False
            elif r[0] == "err2":
                if not check(gp == good2 or gb1 == good2, "second save failed: the first (complete) copy of generation 2 is intact at <p> or <p>_BAK1", lambda: (fired, gp, gb1, gb2)):
                    return False
            else:
                if not check(gp == good1 or gb1 == good1, "failed save: the last good save is intact at <p> or <p>_BAK1", lambda: (fired, gp, gb1, gb2)):
                    return False
                if older and phase == 0 and not check(good0 in (gb1, gb2, _gen_of(p + "_BAK3")), "failed save: the older generation is still there", lambda: (gp, gb1, gb2)):
                    return False
            if not check(valid_zip, "zip destination holds a partially written archive", lambda: fired):
                return False
        # ---- the session stays usable
        with notrace():
            p2 = _os.path.join(base, "again.zip" if zipped else "again")
            try:
                save(m2, p2)
                ok_again = _gen_of(p2) == ("gen", 2, 2, 2, 2)
                save(m2, p)
                ok_same = _gen_of(p) == ("gen", 2, 2, 2, 2)
            except Exception as e:
                ok_again, ok_same = "raised %s: %s" % (type(e).__name__, e), None
        return check(ok_again is True and ok_same is True, "later saves and loads behave normally", lambda: (ok_again, ok_same))
    finally:
        FAULTS.armed = False
        with notrace():
            _sh.rmtree(base, ignore_errors=True)


NOPS = 20
def _fparts(tier):
    return [dict(p_, corpus=0, fail_at2=1) for p_ in ([dict(zipped=z, phase=0, older=False, fail_at=[lo, lo + 2]) for z in (False, True) for lo in range(1, NOPS, 3)] +
                                                      [dict(zipped=z, phase=1, older=False, fail_at=[lo, lo + 3]) for z in (False, True) for lo in range(1, 16, 4)] +
                                                      [dict(zipped=z, phase=0, older=True, fail_at=[lo, lo + 2]) for z in (False, True) for lo in (1, 4)])] + \
        ([dict(zipped=z, phase=2, older=False, corpus=0, fail_at=[lo, lo + 2], fail_at2=[lo2, lo2 + 3]) for z in (False, True) for lo in (1, 4, 7) for lo2 in (1, 5)] if tier == "quick" else
         [dict(zipped=z, phase=ph, older=False, corpus=c_, fail_at=[lo, lo + 2], fail_at2=[1, 1] if ph != 2 else [lo2, lo2 + 5]) for z in (False, True) for ph in (0, 1, 2) for c_ in (0, 1, 2)
          for lo in range(1, 2 * NOPS, 3) for lo2 in ((1, 7, 13) if ph == 2 else (1,))])


_FNAT = [dict(fail_at=k, zipped=z, phase=ph, older=o, corpus=k % 3, fail_at2=(k * 2) % 11 + 1, intr=False) for (k, z, ph, o) in
         ((1, False, 0, False), (2, False, 0, True), (5, True, 0, False), (19, True, 0, True), (20, False, 0, False), (3, False, 1, False), (2, True, 1, False), (12, True, 0, False),
          (9, False, 0, False), (3, True, 2, False), (8, False, 2, False), (14, True, 2, False), (30, True, 2, False))] + \
        [dict(fail_at=k, zipped=z, phase=ph, older=False, corpus=0, fail_at2=1, intr=True) for (k, z, ph) in ((3, False, 1), (4, True, 1), (9, True, 1), (2, False, 0), (6, True, 0), (10, False, 0), (14, True, 0))]


QUERIES = [
    Query("rotation", rotation, pre=[],
          partitions=lambda tier, seed: [dict(backup=True, e0=True), dict(backup=True, e0=False), dict(backup=False)],
          natives=[dict(e0=True, e1=True, e2=False, e3=True, e4=False, d0=True, d1=False, d2=True, d3=True, d4=False, g0=5, g1=4, g2=3, g3=2, g4=1, backup=True),
                   dict(e0=True, e1=True, e2=True, e3=True, e4=True, d0=False, d1=False, d2=False, d3=True, d4=True, g0=5, g1=4, g2=3, g3=2, g4=1, backup=True),
                   dict(e0=True, e1=True, e2=True, e3=True, e4=True, d0=True, d1=True, d2=False, d3=True, d4=True, g0=5, g1=4, g2=3, g3=2, g4=1, backup=False)],
          bounds=lambda tier: {"state": "existence and dir/file kind of <p>, <p>_BAK1..4 symbolic (2^10), generation numbers unbounded symbolic ints",
                               "step": "one call of _increment_backups from an arbitrary state (inductive step)", "max_backups": 3},
          outside=["file-system semantics beyond the modelled rename/unlink/rmtree (permissions, cross-device renames)"]),
    Query("faults", faults, pre=["1 <= fail_at <= 2 * %d" % NOPS, "0 <= phase <= 2", "0 <= corpus <= 2", "1 <= fail_at2 <= 2 * %d" % NOPS],
          partitions=lambda tier, seed: [dict(p_, intr=False) for p_ in _fparts(tier)] + [dict(zipped=z, phase=ph, older=False, corpus=0, fail_at2=1, intr=True, fail_at=[lo, lo + 5]) for z in (False, True) for ph in (0, 1) for lo in (1, 7, 13)],
          natives=_FNAT,
          bounds=lambda tier: {"fault_positions": "every one of the first %d pathlib/shutil/zipfile/pickle operations of a save (a dir save performs 11-12, a zip save 16-17), first 16 of a load (5 / 13)" % NOPS, "containers": ["dir", "zip"],
                               "fault_kinds": ["OSError", "an interrupt: BaseException that is no Exception (single faulted save or load)"],
                               "corpus": CORPUS, "corpus_used": "entry 0 (quick) / all three (thorough)", "phases": ["save", "load", "two consecutive faulted saves"], "history": "[older save] ; good save ; faulted save|load ; two further saves"},
          outside=["faults below the Python API (torn writes, power loss)", "concurrent writers", "larger models (more operations)"]),
]
BUDGET = {"quick": 420, "thorough": 1200}
