"""C12 names are unique per space and the visible namespace equals the containers.  Spaces A, B (B may inherit A),
A has a child space; a history of operations chosen by symbolic selectors (operation, target, name from a 3-name pool so
clashes are reachable); after every step - accepted or rejected - the invariants are asserted through the public views
and the library's own self checks.  Selector-driven (the solver exhausts the operation sequences)."""
from kit import *  # noqa
use_formula_memo()

POOL = ["x", "y", "q"]
OPS = ["new_cells", "set ref", "new_space", "delete", "rename cells", "B.add_bases(A)", "B.remove_bases(A)", "model ref", "model space",
       "set_ref absolute", "rename space", "model.new_space('N', bases=[A, B2]) / [B, B2] when B inherits A", "A.add_bases(Z) (A may have sub spaces B, B2)", "new_cells without a name (named after its def)"]
SPECIAL = {"__builtins__", "_model", "_self", "_space"}


def _inv(m, what):
    with notrace():
        bad = None
        spaces = []

        def walk(sp):
            spaces.append(sp)
            for c in sp.spaces.values():
                walk(c)
        for top in m.spaces.values():
            walk(top)
        for sp in spaces:
            cells, own, refs, chil = set(sp.cells), set(sp._own_refs), set(sp.refs), set(sp.spaces)
            if cells & own or cells & chil or own & chil:
                bad = ("name denotes two kinds in %s" % sp.fullname, sorted(cells), sorted(own), sorted(chil))
                break
            vis = cells | refs | chil
            if set(dir(sp)) != vis:
                bad = ("dir(%s) != cells+refs+spaces" % sp.fullname, sorted(dir(sp)), sorted(vis))
                break
            ns = set(sp._impl.namespace)
            if ns != vis:
                bad = ("formula namespace of %s != cells+refs+spaces" % sp.fullname, sorted(ns), sorted(vis))
                break
            exp_min = own | SPECIAL | (set(m.refs) - cells - chil)     # model-level refs hidden by a cells/space may or may not be listed
            if not (exp_min <= refs <= exp_min | set(m.refs)):
                exp_refs = exp_min
                bad = ("refs of %s != own + special + model-level ones" % sp.fullname, sorted(refs), sorted(exp_refs))
                break
            for nme in vis - SPECIAL:
                obj = getattr(sp, nme)
                kind = "cells" if nme in cells else "space" if nme in chil else "ref"
                ok = (kind == "cells" and type(obj).__name__ == "Cells") or (kind == "space" and "Space" in type(obj).__name__) or \
                     (kind == "ref" and type(obj).__name__ not in ("Cells", "UserSpace"))
                if not ok and nme in m.refs and kind != "ref":
                    ok = True      # a model-level reference created later hides a cells/child space of that name: not covered by the property
                if not ok:
                    bad = ("attribute %s.%s resolves to another kind than its container says" % (sp.fullname, nme), kind, type(obj).__name__)
                    break
        if bad is None and set(m.spaces) & set(m.refs):
            bad = ("model-level name denotes a space and a reference", sorted(m.spaces), sorted(m.refs))
        if bad is None and set(dir(m)) != set(m.spaces) | set(m.refs):
            bad = ("dir(model) != spaces + refs", sorted(dir(m)), sorted(set(m.spaces) | set(m.refs)))
        sane = True
        if bad is None:
            try:
                mx.core.mxsys._check_sanity()
                m._impl._check_sanity()
            except AssertionError:
                sane = False
    if not check(bad is None, "namespace invariant (%s)" % what, lambda: bad):
        return False
    return check(sane, "library self-check (%s)" % what)


def _do(m, op, tgt, ni, v, inh=False):
    sp = m.spaces["A"] if tgt == 0 else m.spaces["B"] if tgt == 1 else m.spaces["A"].spaces["Ch"] if tgt == 2 else m.spaces["B2"] if tgt == 3 else m.spaces["Z"]
    name = POOL[ni]
    if op == 0:
        return call(sp.new_cells, name, formula="lambda: 1")
    if op == 1:
        return call(setattr, sp, name, v)
    if op == 2:
        return call(sp.new_space, name)
    if op == 3:
        return call(delattr, sp, name)
    if op == 4:
        return call(lambda: sp.cells[name].rename(POOL[(ni + 1) % 3]))
    if op == 5:
        return call(m.spaces["B"].add_bases, m.spaces["A"])
    if op == 6:
        return call(m.spaces["B"].remove_bases, m.spaces["A"])
    if op == 7:
        return call(setattr, m, name, v)
    if op == 8:
        return call(m.new_space, name)
    if op == 9:
        return call(sp.set_ref, name, v, "absolute")
    if op == 10:
        return call(lambda: sp.spaces[name].rename(POOL[(ni + 1) % 3]))
    if op == 12:
        return call(m.spaces["A"].add_bases, m.spaces["Z"])
    if op == 13:
        return call(sp.new_cells, formula="def %s():\n    return 1\n" % name)
    if op == 11:
        first = m.spaces["B"] if inh else m.spaces["A"]
        return call(m.new_space, "N", bases=[first, m.spaces["B2"]])
    raise ValueError(op)


@harness
def history(v: int, inh: bool, o1: int, t1: int, n1: int, o2: int, t2: int, n2: int, o3: int, t3: int, n3: int) -> bool:
    inh = pickb(inh)
    with notrace():
        m = new_model("N")
        A = m.new_space("A")
        A.new_space("Ch")
        B = m.new_space("B", bases=A) if inh else m.new_space("B")
        B2 = m.new_space("B2", bases=A) if inh else m.new_space("B2")       # a second (sibling) sub space
        Z = m.new_space("Z")                                                  # a space that can become a base of A
    label("B inherits A" if inh else "B independent")
    if not _inv(m, "initial"):
        return False
    for i, (o, t, n) in enumerate(((o1, t1, n1), (o2, t2, n2), (o3, t3, n3))):
        o = pick(o, -1, len(OPS) - 1)
        if o < 0:
            break
        t = pick(t, 0, 4) if o not in (5, 6, 7, 8, 11, 12) else 0
        n = pick(n, 0, 2) if o not in (5, 6, 11, 12) else 0
        if o == 11 and "N" in m.spaces:
            return True
        r = _do(m, o, t, n, v, inh)
        label("%s %s %s -> %s" % (OPS[o], ("A", "B", "A.Ch", "B2", "Z")[t] if o not in (5, 6, 7, 8, 11, 12) else "", POOL[n] if o not in (5, 6, 11, 12) else "", "ok" if r[0] == "ok" else r[1]))
        if not _inv(m, "after step %d" % (i + 1)):
            return False
    return True


NO = len(OPS)


def _parts(tier, seed):
    if tier == "quick":
        return [dict(o1=a, o2=[lo, hi], o3=-1) for a in range(NO) for (lo, hi) in ((0, 5), (6, NO - 1))] + [dict(inh=False, o1=a, o2=b, o3=5) for a in (0, 1, 2) for b in (0, 1, 2)] + \
               [dict(o1=a, o2=b, o3=c, t1=ta, t2=tb) for (a, ta, b, tb, c) in ((0, 0, 1, 3, 11), (1, 0, 0, 3, 11), (0, 1, 1, 3, 0), (1, 1, 0, 3, 0), (0, 1, 7, 0, 1), (2, 1, 7, 0, 1), (1, 1, 0, 4, 12), (0, 4, 2, 3, 12), (0, 4, 1, 0, 12))]
    return [dict(o1=a, o2=b, o3=[-1, NO - 1], n3=[0, 1]) for a in range(NO) for b in range(NO)]


QUERIES = [
    Query("history", history,
          pre=["-1 <= o1 < %d" % NO, "-1 <= o2 < %d" % NO, "-1 <= o3 < %d" % NO, "0 <= t1 < 5", "0 <= t2 < 5", "0 <= t3 < 5",
               "n1 == 0", "0 <= n2 < 2", "0 <= n3 < 3"],      # names are interchangeable: first name is x, second x or y (symmetry reduction)
          partitions=_parts,
          natives=[dict(v=5, inh=i, o1=a, t1=ta, n1=na, o2=b, t2=tb, n2=nb, o3=c, t3=0, n3=0) for (i, a, ta, na, b, tb, nb, c) in
                   ((True, 0, 0, 0, 1, 1, 0, -1), (False, 1, 1, 0, 0, 0, 0, 5), (True, 2, 0, 1, 0, 1, 1, -1), (False, 7, 0, 0, 0, 0, 0, 3),
                    (True, 0, 0, 0, 4, 0, 0, 6), (False, 8, 0, 0, 7, 0, 0, -1), (True, 1, 0, 2, 3, 0, 2, 1), (False, 2, 1, 0, 10, 1, 0, -1),
                    (False, 0, 0, 0, 1, 3, 0, 11), (True, 0, 1, 0, 1, 3, 0, 0), (True, 0, 1, 0, 7, 0, 0, 1), (True, 1, 1, 0, 0, 4, 0, 12), (True, 0, 4, 0, 2, 3, 0, 12), (True, 1, 0, 0, 13, 0, 0, -1), (True, 1, 1, 0, 13, 0, 0, -1), (False, 2, 0, 0, 13, 0, 0, 3))],
          bounds=lambda tier: {"spaces": "A, A.Ch, B, B2 (B and B2 inherit A or not), Z (can become a base of A)", "name_pool": POOL, "symmetry": "first operation uses name x, second x or y (names are interchangeable)", "operations": OPS, "history_length": 2 if tier == "quick" else 3},
          outside=["histories longer than 3", "names outside the pool", "ItemSpaces"]),
]
LOCS = ["own reference of P", "own reference of the child space P.PC", "reference of P's base (derived in P)", "no space-level reference"]
FOLLOW = ["nothing", "space-level reference re-assigned", "space-level reference deleted"]


@harness
def precedence(v: int, w: int, v2: int, loc: int, first: bool, follow: int) -> bool:
    """A model-level reference x and a space-level reference x: in the space, in spaces deriving it, in its child space and in
    every ItemSpace built from them the name denotes the SPACE-level value (attribute access, refs, formulas), is listed once,
    and falls back to the model-level value when the space-level one is deleted."""
    loc, first, follow = pick(loc, 0, 3), pickb(first), pick(follow, 0, 2)
    label("%s; model-level reference created %s" % (LOCS[loc], "first" if first else "afterwards"))
    with notrace():
        m = new_model("PR")
        Bs = m.new_space("Bs")
        P = m.new_space("P", bases=Bs, formula="lambda n: None")
        P.new_cells("rd", formula="lambda: x")
        PC = P.new_space("PC")
        PC.new_cells("rd", formula="lambda: x")
        Sub = m.new_space("Sub", bases=P, formula="lambda n: None")
        holder = (P, PC, Bs, None)[loc]
        Cx = m.new_space("Cx")
        Cx.new_cells("x", formula="lambda: 1")          # a cells named x, created BEFORE the model-level reference (which it then hides)
        if first:
            m.x = w
        if holder is not None:
            holder.x = v
        if not first:
            m.x = w
    cur = v
    for step in range(2):
        if step == 1:
            if follow == 0 or holder is None:
                return True
            label(FOLLOW[follow])
            if follow == 1:
                holder.x = v2
                cur = v2
            else:
                del holder.x
                cur = None
        exp = {"P": cur if (loc in (0, 2) and cur is not None) else w, "PC": cur if (loc == 1 and cur is not None) else w}
        views = [("P", P, "P"), ("P.PC", PC, "PC"), ("Sub", Sub, "P"), ("P[1]", P[1], "P"), ("P[1].PC", P[1].PC, "PC"), ("Sub[2]", Sub[2], "P"), ("Sub[2] again", Sub(2), "P")]
        for nm, sp, key in views:
            if True:
                a = call(lambda: sp.x)
                b = call(lambda: sp.refs["x"])
                c = call(lambda: sp.cells["rd"]())
                with notrace():
                    once = list(dir(sp)).count("x") == 1
                want = exp[key]
                for how, r in (("attribute access", a), ("refs[...]", b), ("a formula", c)):
                    if not check(r[0] == "ok" and r[1] == want, "%s: x seen through %s is the space-level value when there is one, else the model-level one" % (nm, how), lambda: (r, want)):
                        return False
                if not check(once, "%s: dir() lists x exactly once" % nm):
                    return False
        if step == 0:
            # a cells named like the model-level reference (it hides it): spaces deriving it can be created / extended
            if True:
                n1 = call(m.new_space, "Nx", bases=Cx)
                ex = m.new_space("Ex")
                n2 = call(ex.add_bases, Cx)
                if not check(n1[0] == "ok" and n2[0] == "ok", "deriving a space whose cells is named like a model-level reference is legal", lambda: (n1, n2)):
                    return False
                with notrace():
                    kinds = (type(m.Nx.x).__name__, type(ex.x).__name__, "x" in m.Nx._own_refs, "x" in ex._own_refs)
                if not check(kinds == ("Cells", "Cells", False, False), "in the deriving spaces the name denotes the derived cells only", lambda: kinds):
                    return False
    return True


QUERIES.append(
    Query("precedence", precedence, pre=["0 <= loc <= 3", "0 <= follow <= 2"],
          partitions=lambda tier, seed: [dict(loc=l_, first=f_) for l_ in range(4) for f_ in (False, True)],
          natives=[dict(v=5, w=9, v2=7, loc=l_, first=f_, follow=fo_) for (l_, f_, fo_) in ((0, True, 1), (1, False, 2), (2, True, 2), (3, True, 0), (0, False, 2), (2, False, 1))],
          bounds=lambda tier: {"placement": LOCS, "order": ["model-level first", "space-level first"], "follow_up": FOLLOW, "views": "P, P.PC, Sub(P), P[1], P[1].PC, Sub[2]",
                               "values": "model-level w, space-level v, v2: unbounded symbolic ints (the check is v-vs-w as a solver query)"},
          outside=["names that are also cells or child spaces (the history query)", "ItemSpaces nested in ItemSpaces"]))
BUDGET = {"quick": 420, "thorough": 1200}
