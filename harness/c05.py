"""C05 a failed evaluation leaves a consistent, retryable state.  DAG kit; the failure position (F, FT), the
exception kind, the requested elements, the DAG and all values are symbolic.  Oracle: depth-first simulation of the
evaluation order over the pointers (which elements complete before the failure, which are on the failing chain)."""
from kit import *  # noqa
use_formula_memo()

import os as _os
TIER = _os.environ.get("VERIF_TIER", "quick")
N = 3
KINDS = ["raise", "zerodiv", "none", "base", "assign"]
ERR = {"raise": "ValueError", "zerodiv": "ZeroDivisionError", "none": "NoneReturnedError", "base": "Boom", "assign": "ValueError"}


def _state_ok(d, done, what):
    if not check(executor_idle(), "executor idle after " + what):
        return False
    with notrace():
        held = d.held()
        ok = held == set(done)
        gnodes = set((d.cells.index(n[0].interface), n[1][0]) for n in d.m._impl.tracegraph.nodes if len(n) > 1 and n[0].interface in d.cells)
        ok2 = gnodes == held
        sane = True
        try:
            for c in d.cells:
                c._impl.check_sanity()
        except AssertionError:
            sane = False
    if not check(ok, "held == elements completed before the failure (%s)" % what, lambda: (sorted(held), sorted(done))):
        return False
    if not check(ok2, "dependency graph nodes == held elements (%s)" % what, lambda: (sorted(gnodes), sorted(held))):
        return False
    if not check(sane, "check_sanity (%s)" % what):
        return False
    for (k, t) in sorted(done):
        v = d.cells[k]._impl.data[(t,)]
        if not check(v == d.val(k, t), "held value c%d(%d) correct (%s)" % (k, t, what)):
            return False
    return True


def _request(d, q, t, kind, F, FT, done):
    label("req c%d(%d)" % (q, t))
    n0 = len(ctx.hits)
    r = call(d.cells[q], t)
    failed, done2, chain = d.simulate(q, t, kind, F, FT, already=done)     # traced: realises the pointers it reaches
    with notrace():
        ran = sorted(h for h in ctx.hits[n0:] if h[0] >= 0)
        expect_ran = sorted(set(done2) - set(done)) + sorted((c[0], c[1]) for c in chain)
        okran = ran == sorted(expect_ran)
    if failed:
        label("fails at c%d(%d) kind=%s chain=%d" % (F, FT, kind, len(chain)))
        if not check(r[0] == "err" and r[1] == ERR[kind], "failing request raises FormulaError carrying the original exception",
                     lambda: r):
            return None
        with notrace():
            e = mx.get_error()
            okerr = type(e).__name__ == ERR[kind] and e is r[2]
        if not check(okerr, "get_error() is the original exception"):
            return None
    else:
        if not check(r[0] == "ok" and r[1] == d.val(q, t), "non-failing request value", lambda: (r, d.val(q, t))):
            return None
    if not check(okran, "formulas run == new completed + failing chain, each once", lambda: (ran, expect_ran)):
        return None
    if not _state_ok(d, done2, "request c%d(%d)" % (q, t)):
        return None
    return done2


@harness
def failure(v0: int, v1: int, v2: int, z: int, g: int, p1_1: int, p2_1: int, p1_2: int, p2_2: int,
            T0: bool, T1: bool, T2: bool, kind: int, F: int, FT: int, q1: int, t1: int, q2: int, t2: int) -> bool:
    kind, F, FT, q1, t1, q2, t2 = pick(kind, 0, 4), pick(F, 0, 2), pick(FT, 0, 1), pick(q1, 0, 2), pick(t1, 0, 1), pick(q2, 0, 2), pick(t2, 0, 1)
    kind = KINDS[kind]
    d = Dag(N, fail=kind)
    d.bind([v0, v1, v2], [-1, p1_1, p1_2], [-1, p2_1, p2_2], [T0, T1, T2], z, g, F=F, FT=FT)
    done = _request(d, q1, t1, kind, F, FT, [])
    if done is None:
        return False
    done = _request(d, q2, t2, kind, F, FT, done)       # second request in the state the first one left
    if done is None:
        return False
    if TIER != "quick":
        done = _request(d, q1, t1, kind, F, FT, done)       # retry: same outcome again
        if done is None:
            return False
    # repair: move the failure away; every element then evaluates to the oracle value
    label("repair")
    d.S.F = -1
    for (q, t) in ((q1, t1), (q2, t2)):
        r = call(d.cells[q], t)
        if not check(r[0] == "ok" and r[1] == d.val(q, t), "value after repair c%d(%d)" % (q, t), lambda: r):
            return False
    return check(executor_idle(), "executor idle after repair")


@harness
def depth(v0: int, z: int, g: int, lim: int, t: int, t2: int) -> bool:
    """Self-recursive chain c0(t) -> c0(t-1) ... under a configured recursion limit."""
    lim, t, t2 = pick(lim, 1, 4), pick(t, 0, 6), pick(t2, 0, 6)
    d = Dag(1)
    d.bind([v0], [-1], [-1], [True], z, g)
    mx.set_recursion(lim)
    label("limit %d request c0(%d)" % (lim, t))
    r = call(d.cells[0], t)
    # CallStack.append refuses when more than `lim` frames are already on the stack: chains of up to lim+1 frames pass
    too_deep = (t + 1) > lim + 1
    if too_deep:
        if not check(r[0] == "err" and r[1] == "DeepReferenceError", "chain beyond the limit raises DeepReferenceError", lambda: r):
            return False
        done = [(0, i) for i in range(0)]
    else:
        if not check(r[0] == "ok" and r[1] == d.val(0, t), "chain within the limit evaluates", lambda: r):
            return False
        done = [(0, i) for i in range(t + 1)]
    if not _state_ok(d, done, "depth request"):
        return False
    label("then c0(%d)" % t2)
    r = call(d.cells[0], t2)
    need = 0 if (0, t2) in done else (t2 + 1 if not done else t2 - t)      # frames needed on top of what is held
    if need > lim + 1:
        if not check(r[0] == "err" and r[1] == "DeepReferenceError", "second deep chain raises", lambda: r):
            return False
    else:
        if not check(r[0] == "ok" and r[1] == d.val(0, t2), "second chain evaluates", lambda: r):
            return False
    mx.set_recursion(1000)
    r = call(d.cells[0], 6)
    return check(r[0] == "ok" and r[1] == d.val(0, 6) and executor_idle(), "after raising the limit everything evaluates", lambda: r)


_NAT = dict(v0=1, v1=2, v2=3, z=4, g=5, p1_1=0, p2_1=-1, p1_2=1, p2_2=0, T0=True, T1=False, T2=True)


def _parts(tier, seed):
    if tier == "quick":
        return product(kind=[0, 1, 2], F=[0, 1, 2], FT=[0, 1], q1=[2], t1=[1], q2=[2, 1, 0], t2=[1], T0=[False], T1=[False]) + product(kind=[3, 4], F=[0, 1, 2], FT=[0, 1], q1=[2], t1=[1], q2=[2], t2=[1], T0=[False], T1=[False])
    return product(kind=[0, 1, 2, 3, 4], F=[0, 1, 2], FT=[0, 1], q1=[1, 2], t1=[0, 1])


QUERIES = [
    Query("failure", failure,
          pre=dag_pre(N) + ["0 <= kind < 5", "0 <= F < 3", "0 <= FT <= 1", "0 <= q1 < 3", "0 <= t1 <= 1", "0 <= q2 < 3", "0 <= t2 <= 1"],
          partitions=_parts,
          natives=[dict(_NAT, kind=k, F=f, FT=ft, q1=2, t1=1, q2=q2, t2=0) for k in range(5) for (f, ft, q2) in ((0, 0, 1), (1, 1, 2), (2, 0, 0))],
          bounds=lambda tier: {"cells": N, "t_max": 1, "failure_kinds": KINDS, "failure_position": "every (cells, t)", "requests": "request (may fail), second request (quick: any cells at t=1; thorough: any element, then a retry of the first), repair, re-request",
                               "dag": "pointers symbolic; recursion on top cells only in quick"},
          outside=["exceptions other than ValueError/ZeroDivisionError/None-returned/DeepReferenceError", "N > 3",
                   "chains near the production recursion limit (interpreter crash is not observable by a solver)"]),
    Query("depth", depth, pre=["1 <= lim <= 4", "0 <= t <= 6", "0 <= t2 <= 6"],
          partitions=lambda tier, seed: product(lim=[1, 2, 3, 4]),
          natives=[dict(v0=1, z=2, g=3, lim=2, t=5, t2=2), dict(v0=1, z=2, g=3, lim=3, t=3, t2=6), dict(v0=1, z=2, g=3, lim=1, t=1, t2=3)],
          bounds=lambda tier: {"recursion_limit": "1..4", "chain_length": "1..7"},
          outside=["limits above 4"]),
]
BUDGET = {"quick": 400, "thorough": 1200}
